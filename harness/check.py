#!/venv/bin/python
"""Entry point: check.py <property id> [--tier quick|thorough] [--repo DIR] [--replay FILE]."""
import argparse
import importlib
import os
import sys

sys.path.insert(0, os.path.dirname(os.path.abspath(__file__)))

GROUP = {
    'C19': 'chk_ident', 'C14': 'chk_noise', 'C09': 'chk_library', 'C10': 'chk_library', 'C16': 'chk_surface', 'C17': 'chk_surface', 'C12': 'chk_kernel', 'C13': 'chk_kernel',
    'C01': 'chk_circuit', 'C02': 'chk_circuit', 'C04': 'chk_circuit', 'C05': 'chk_circuit', 'C06': 'chk_circuit',
    'C07': 'chk_circuit', 'C08': 'chk_circuit', 'C18': 'chk_circuit', 'C15': 'chk_circuit', 'C11': 'chk_circuit', 'C03': 'chk_circuit',
}


def main():
    ap = argparse.ArgumentParser()
    ap.add_argument('pid')
    ap.add_argument('--tier', default=None)
    ap.add_argument('--repo', default=None)
    ap.add_argument('--replay', default=None)
    a = ap.parse_args()
    if a.repo:
        os.environ['VERIF_REPO'] = os.path.abspath(a.repo)
    import common
    common.REPO = os.environ.get('VERIF_REPO', '/repo')
    if a.pid not in GROUP:
        print('MACHINERY-FAILURE: no check registered for %s' % a.pid)
        sys.exit(2)
    mod = importlib.import_module(GROUP[a.pid])
    t = common.tier(a.tier)
    if a.replay:
        common.machinery_guard(lambda: mod.replay(a.pid, a.replay))
    else:
        common.machinery_guard(lambda: mod.run(a.pid, t))


if __name__ == '__main__':
    main()
