"""C01-C07, C11: the circuit state machine.  TLC model-checks Circuit/Clauses, generates programs from CircuitGen,
the programs run on the real library under the recorder, TLC validates the recorded traces (CircuitTrace)."""
import concurrent.futures as cf
import json
import os
import random
import time

import common
import gen
from common import run_tlc, run_impl, Verdict, scratch

Q2 = (0, 1)
Q3 = (0, 1, 2)
CFG_A = {'RO': 14, 'MW': 2, 'FL': 6, 'RST': 4}
CFG_B = {'RO': 2, 'MW': 6, 'FL': 4, 'RST': 10}


# ------------------------------------------------------------------ alphabets
def waits(qs, chans=('ALL', 'MICROWAVE'), durs=(0, 4, 12), reg=False):
    m = [gen.leaf('Wait', [q], [[q, ch]], ['fixed', d]) for q in qs for ch in chans for d in durs]
    if reg:
        m += [gen.leaf('Wait', [q], [[q, 'ALL']], ['reg', 'k1']) for q in qs]
    return m


def gates(qs):
    m = []
    for q in qs:
        m.append(gen.leaf('Rx180', [q], [[q, 'MICROWAVE']], ['global', 'MW']))
        m.append(gen.leaf('Reset', [q], [[q, 'ALL']], ['global', 'RST']))
        m.append(gen.leaf('VirtualPark', [q], [[q, 'FLUX']], ['global', 'FL']))
    return m


def meas(qs, tags=('', 'a')):
    return [gen.leaf('DispersiveMeasure', [q], [[q, 'READOUT']], ['global', 'RO'], t) for q in qs for t in tags]


def two(qs):
    m = []
    for i, a in enumerate(qs):
        for b in qs[i + 1:]:
            m.append(gen.leaf('CPhase', [a, b], [[a, 'FLUX'], [a, 'MICROWAVE'], [b, 'FLUX'], [b, 'MICROWAVE']], ['global', 'FL']))
            m.append(gen.leaf('Barrier', [a, b], [[a, 'ALL'], [b, 'ALL']], ['fixed', 2]))
    return m


MC_MENU = [gen.leaf('Wait', [0], [[0, 'ALL']], ['fixed', 4]), gen.leaf('Wait', [0], [[0, 'MICROWAVE']], ['fixed', 12]),
           gen.leaf('Wait', [1], [[1, 'ALL']], ['fixed', 0]), gen.leaf('DispersiveMeasure', [1], [[1, 'READOUT']], ['global', 'RO'])]


def model_check(tier):
    """TLC role 1: invariants and action properties of the specification itself."""
    objs = 4 if tier == 'quick' else 5
    menu = MC_MENU[:3] if tier == 'quick' else MC_MENU
    _, res, _ = gen.run_gen('mc', menu, reps=[('fixed', 1), ('fixed', 2)], acts=('NewCircuit', 'AddOp', 'AddSub', 'Apply', 'CopyCirc'),
                            max_circs=2, max_objs=objs, max_steps=50, base='MCCircuit', invariants=('WF', 'SnapOK'),
                            properties=('UnrollProps', 'NTimesT', 'Independence'), workers=16, view='MCView', timeout=1500)
    return res


# ----------------------------------------------------------- program sources
def programs_for(pid, tier, seed):
    """List of (source name, programs). Alphabets are chosen per property; all go through the same trace spec."""
    quick = tier == 'quick'
    out = []

    def g(name, menu, cap=None, keep=None, **kw):
        progs, res, total = gen.run_gen(name, menu, seed=seed, cap=None, **kw)
        if keep:
            progs = [p for p in progs if keep(p)]
        if cap and len(progs) > cap:
            progs.sort(key=lambda p: json.dumps(p, sort_keys=True))
            progs = random.Random(seed).sample(progs, cap)
        out.append({'name': name, 'programs': progs, 'generated': total, 'tlc_states': res.distinct, 'tlc_generated': res.generated,
                    'mode': 'simulate' if kw.get('simulate') else 'exhaustive'})

    # (1) exhaustive, flat: every relation type x reference x duration (incl. zero-length) over two qubits
    g('flat', waits(Q2) if not quick else waits((0,)) + waits((1,), chans=('ALL',), durs=(4,)), max_circs=1, max_objs=4, max_steps=4, cap=700 if quick else 6000, one_in=8 if quick else 4, workers=4)
    # (2) exhaustive, nesting: a sub-circuit nested in a circuit, repetition counts, unrolled
    g('nest', [gen.leaf('Wait', [0], [[0, 'ALL']], ['fixed', 4]), gen.leaf('Wait', [0], [[0, 'MICROWAVE']], ['fixed', 12]),
               gen.leaf('Wait', [1], [[1, 'ALL']], ['fixed', 0]), gen.leaf('Rx180', [1], [[1, 'MICROWAVE']], ['global', 'MW'])],
      reps=[('fixed', 1), ('fixed', 2)], acts=('NewCircuit', 'AddOp', 'AddSub', 'Apply', 'Obs'), linktypes=('FB', 'JE'),
      max_circs=2, max_objs=5, max_steps=5 if quick else 6, cap=700 if quick else 6000, one_in=100 if quick else 50, workers=4)
    # (2b) exhaustive, implicit rule across nesting: one qubit, every channel kind, no explicit relation; a sub-circuit's
    #      channels are what its operations occupy (ALL bridges the specific channels)
    one = [gen.leaf('Wait', [0], [[0, ch]], ['fixed', 4]) for ch in ('ALL', 'MICROWAVE', 'FLUX')] + meas((0,), tags=('',))
    def sub_then_add(p):
        k = [i for i, s in enumerate(p) if s['a'] == 'AddSub']
        return bool(k) and any(s['a'] == 'AddOp' and s['c'] == p[k[0]]['c'] for s in p[k[0] + 1:]) and \
            sum(1 for s in p[:k[0]] if s['a'] == 'AddOp' and s['c'] == p[k[0]]['s']) >= 2
    g('chan', one, acts=('NewCircuit', 'AddOp', 'AddSub'), linktypes=(), max_circs=2, max_objs=9, max_steps=6 if quick else 7,
      cap=1500 if quick else 20000, workers=4, min_emit=6, keep=sub_then_add)
    # (2c) exhaustive, relations that refer to an operation nested inside an already added sub-circuit (the library warns
    #      and falls back to the implicit rule; the listing must stay causal with respect to what operations report)
    g('deep', [gen.leaf('Wait', [0], [[0, 'ALL']], ['fixed', 4]), gen.leaf('Rx180', [2], [[2, 'MICROWAVE']], ['global', 'MW'])]
      + ([] if quick else [gen.leaf('Wait', [1], [[1, 'MICROWAVE']], ['fixed', 12])]),
      acts=('NewCircuit', 'AddOp', 'AddSub'), linktypes=('FB',) if quick else ('FB', 'JS'), max_circs=2, max_objs=9, max_steps=6, deep=True,
      cap=1200 if quick else 8000, workers=4, min_emit=6,
      keep=lambda p: any(s['a'] == 'AddSub' for s in p) and p[-1]['a'] == 'AddOp' and p[-1]['link']['k'] == 'one')
    # (3) simulation: long programs over the full alphabet, overrides, registry durations, copies, unrolling
    full = waits(Q3, chans=('ALL', 'MICROWAVE', 'FLUX'), durs=(0, 2, 6), reg=True) + gates(Q3) + meas(Q3) + two(Q3)
    g('sim', full, reps=[('fixed', 1), ('fixed', 2), ('fixed', 3), ('reg', 'r1')], configs=(gen.DEFAULT_CFG, CFG_A, CFG_B),
      acts=('NewCircuit', 'AddOp', 'AddSub', 'CopyCirc', 'Apply', 'SetDur', 'SetRep', 'Enter', 'Leave', 'Obs'),
      max_circs=3, max_objs=14, max_steps=12, simulate='num=%d' % (60 if quick else 1500), depth=13, min_emit=5, one_in=10,
      cap=800 if quick else 12000)
    return out


# ------------------------------------------------------------ trace validation
def offgrid(trace):
    txt = json.dumps(trace)
    return 'offgrid:' in txt


def validate(traces, nchunks=14):
    """TLC role 3.  Traces are validated in parallel batches; returns (fails, stats)."""
    sc = scratch()
    idx = list(range(len(traces)))
    chunks = [idx[k::nchunks] for k in range(nchunks)]
    chunks = [c for c in chunks if c]
    jobs = []
    for k, ch in enumerate(chunks):
        tin = os.path.join(sc, 'tr_in_%d_%d.json' % (k, int(time.time() * 1000) % 10 ** 8))
        tout = tin.replace('tr_in', 'tr_out')
        json.dump([traces[i] for i in ch], open(tin, 'w'))
        jobs.append((k, ch, tin, tout))

    def one(job):
        k, ch, tin, tout = job
        r = run_tlc('CircuitTrace', 'SPECIFICATION Spec\n', env={'VERIF_IN': tin, 'VERIF_OUT': tout}, workers=1,
                    name='CircuitTrace%d' % k, timeout=3000)
        if not os.path.exists(tout):
            raise common.MachineryError('trace validation wrote no verdict:\n' + common.tail(r.out, 40))
        res = json.load(open(tout))
        if res['traces'] != len(ch):
            raise common.MachineryError('trace validation consumed %s of %d traces' % (res['traces'], len(ch)))
        for f in res['fails']:
            f['trace'] = ch[f['tid'] - 1]
        return res, r
    fails, states, gen_states, nobs = [], 0, 0, 0
    with cf.ThreadPoolExecutor(max_workers=nchunks) as ex:
        for res, r in ex.map(one, jobs):
            fails += res['fails']
            states += r.distinct
            gen_states += r.generated
            nobs += res['nobs']
    return fails, {'states': states, 'transitions': gen_states, 'observations': nobs}


def execute(programs, repo=None):
    sc = scratch()
    pin = os.path.join(sc, 'progs_%d.json' % (int(time.time() * 1000) % 10 ** 8))
    pout = pin.replace('progs_', 'traces_')
    json.dump(programs, open(pin, 'w'))
    run_impl('replay.py', [pin, pout, '--procs', 16], repo=repo)
    return json.load(open(pout))


NONTRIVIAL = {
    'C01': lambda p: sum(1 for s in p if s['a'] in ('AddOp', 'AddSub')) >= 2,
    'C02': lambda p: sum(1 for s in p if s['a'] in ('AddOp', 'AddSub')) >= 2,
    'C04': lambda p: sum(1 for s in p if s['a'] == 'AddOp' and s['link']['k'] == 'one' and s['link']['rt'] in ('JS', 'JE')) >= 1,
}
RULES = {
    'C01': '>= 2 additions (so at least one explicit or implicit relation is placed)',
    'C02': '>= 2 additions (listing has an order to get wrong)',
    'C04': 'at least one JOINED_START/JOINED_END relation (the last-ending operation need not be a relation leaf)',
}


def run(pid, tier):
    t0 = time.time()
    v = Verdict(pid, tier, t0)
    seed = common.seed()
    mc = model_check(tier)
    sources = programs_for(pid, tier, seed)
    programs = []
    for s in sources:
        for p in s['programs']:
            programs.append(p)
    traces = execute(programs)
    bad = [i for i, t in enumerate(traces) if offgrid(t)]
    for i in bad:
        v.fail('C01.grid', {'trace': i, 'what': 'a reported time is not a multiple of 1/4 although all durations are'}, replay={'program': programs[i]})
    good = [i for i in range(len(traces)) if i not in set(bad)]
    fails, st = validate([traces[i] for i in good])
    per_clause = {}
    for f in fails:
        per_clause[f['clause']] = per_clause.get(f['clause'], 0) + 1
        ti = good[f['trace']]
        if f['clause'].startswith(pid + '.') or (f['clause'].startswith('C00.') and pid in ('C01', 'C02')):
            ev = traces[ti][f['l'] - 1] if f['l'] - 1 < len(traces[ti]) else {}
            v.fail(f['clause'], {'trace': ti, 'event': f['l'], 'obj': f['obj'], 'info': f['info']},
                   signature=signature(f, ev, traces[ti], programs[ti]), replay={'program': programs[ti]})
    nt = NONTRIVIAL.get(pid, lambda p: True)
    canon = set(json.dumps(p, sort_keys=True) for p in programs if nt(p))
    v.coverage.update({
        'states': mc.distinct + st['states'] + sum(s['tlc_states'] for s in sources),
        'transitions': mc.generated + st['transitions'] + sum(s['tlc_generated'] for s in sources),
        'traces_validated_against_impl': len(good),
        'evaluations': st['observations'],
        'distinct_nontrivial': len(canon),
        'rule': 'programs are action sequences generated by TLC from spec/CircuitGen.tla (exhaustive for small alphabets, -simulate '
                'for long ones), replayed on the real library; an evaluation is one recorded observation battery judged by TLC; '
                'non-trivial = ' + RULES.get(pid, 'any'),
        'samples': [programs[0], programs[len(programs) // 2], programs[-1]][:3],
        'sources': [{k: s[k] for k in s if k != 'programs'} | {'used': len(s['programs'])} for s in sources],
        'clause_failures_all_properties': per_clause,
        'mc': {'module': 'MCCircuit', 'distinct_states': mc.distinct, 'generated': mc.generated,
               'invariants': ['WF', 'SnapOK'], 'action_properties': ['UnrollProps', 'NTimesT', 'Independence']},
    })
    v.assumptions += ['the recorder (harness/tracer.py) projects the real objects faithfully',
                      'durations are multiples of 1/4 time unit (integer arithmetic in TLC)']
    v.finish()


MUTATIONS = ('AddOp', 'AddSub', 'Apply', 'Flatten', 'SetDur', 'SetRep', 'Enter', 'Leave', 'CopyCirc')


def memo_trigger(trace, upto):
    """Is the failing observation inside the trigger class of the known memo defect?  (a) an earlier unrolling that
    appended copies (chaining queries times before relations are handed to nested operations), or (b) an earlier
    time query followed by a mutation.  A stale value outside this class is a new violation."""
    queried = False
    for e in trace[:upto]:
        if e['ev'] == 'Apply' and e.get('new'):
            return True
        if e['ev'] == 'Obs':
            queried = True
        elif queried and e['ev'] in MUTATIONS:
            return True
    return False


def signature(f, ev, trace, prog):
    """Signature used to match a failure against KNOWN_FINDINGS.json (None = never known)."""
    cl = f['clause']
    if f.get('memo') or cl.startswith('C03.memo'):
        return 'stale-memo' if memo_trigger(trace, f['l'] - 1) else None
    if cl == 'C01.frame' and ev.get('ev') == 'Obs':
        snap = ev['snap']
        o = snap['leaves'].get(f['obj']) or snap['comps'].get(f['obj'])
        home = snap['comps'].get(o['home']) if o else None
        if home and home['rlink']['k'] == 'one' and home['rlink']['rt'] == 'JE':
            return 'je-block-handover'
    return None


def replay(pid, path):
    d = json.load(open(path))
    for f in d['failures'][:3]:
        prog = f['replay']['program']
        tr = execute([prog])[0]
        fails, _ = validate([tr], nchunks=1)
        print('program:', json.dumps(prog)[:2000])
        for x in fails:
            print('  ', x['clause'], x['obj'], x['info'])
