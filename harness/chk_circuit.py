"""C01-C07, C11: the circuit state machine.  TLC model-checks Circuit/Clauses, generates programs from CircuitGen,
the programs run on the real library under the recorder, TLC validates the recorded traces (CircuitTrace)."""
import concurrent.futures as cf
import json
import os
import random
import time

import common
import gen
import progs as PB
from common import run_tlc, run_impl, Verdict, scratch

Q2 = (0, 1)
Q3 = (0, 1, 2)
CFG_A = {'RO': 14, 'MW': 2, 'FL': 6, 'RST': 4}
CFG_B = {'RO': 2, 'MW': 6, 'FL': 4, 'RST': 10}


# ------------------------------------------------------------------ alphabets
def waits(qs, chans=('ALL', 'MICROWAVE'), durs=(0, 4, 12), reg=False):
    m = [gen.leaf('Wait', [q], [[q, ch]], ['fixed', d]) for q in qs for ch in chans for d in durs]
    if reg:
        m += [gen.leaf('Wait', [q], [[q, 'ALL']], ['reg', 'k1']) for q in qs]
    return m


def gates(qs):
    m = []
    for q in qs:
        m.append(gen.leaf('Rx180', [q], [[q, 'MICROWAVE']], ['global', 'MW']))
        m.append(gen.leaf('Reset', [q], [[q, 'ALL']], ['global', 'RST']))
        m.append(gen.leaf('VirtualPark', [q], [[q, 'FLUX']], ['global', 'FL']))
    return m


def meas(qs, tags=('', 'a')):
    return [gen.leaf('DispersiveMeasure', [q], [[q, 'READOUT']], ['global', 'RO'], t) for q in qs for t in tags]


def two(qs):
    m = []
    for i, a in enumerate(qs):
        for b in qs[i + 1:]:
            m.append(gen.leaf('CPhase', [a, b], [[a, 'FLUX'], [a, 'MICROWAVE'], [b, 'FLUX'], [b, 'MICROWAVE']], ['global', 'FL']))
            m.append(gen.leaf('Barrier', [a, b], [[a, 'ALL'], [b, 'ALL']], ['fixed', 2]))
    return m


MC_MENU = [gen.leaf('Wait', [0], [[0, 'ALL']], ['fixed', 4]), gen.leaf('Wait', [0], [[0, 'MICROWAVE']], ['fixed', 12]),
           gen.leaf('Wait', [1], [[1, 'ALL']], ['fixed', 0]), gen.leaf('DispersiveMeasure', [1], [[1, 'READOUT']], ['global', 'RO'])]


def model_check(tier):
    """TLC role 1: invariants and action properties of the specification itself."""
    def mc(menu, objs, timeout):
        _, r, _ = gen.run_gen('mc', menu, reps=[('fixed', 1), ('fixed', 2)], acts=('NewCircuit', 'AddOp', 'AddSub', 'Apply', 'CopyCirc'),
                              max_circs=2, max_objs=objs, max_steps=50, base='MCCircuit', invariants=('WF', 'SnapOK'),
                              properties=('UnrollProps', 'NTimesT', 'Independence', 'CopyFaithful'), workers=16, view='MCView', timeout=timeout)
        return r
    if tier == 'quick':
        return mc(MC_MENU[:3], 4, 1500)
    # thorough: one more object over three templates (2.8M states, about 6.5 min on 16 cores), and the full menu at the quick bound
    res = mc(MC_MENU[:3], 5, 3000)
    r2 = mc(MC_MENU, 4, 1500)
    res.distinct += r2.distinct
    res.generated += r2.generated
    return res


# ----------------------------------------------------------- program sources
def kinds_menu(repo=None):
    """Every concrete operation class of the library (enumerated from the code under test)."""
    out = os.path.join(scratch(), 'kinds.json')
    run_impl('drv_kinds.py', [out], repo=repo)
    d = json.load(open(out))
    if d['skipped']:
        raise common.MachineryError('operation classes the harness cannot construct: %s' % d['skipped'])
    return [gen.leaf(t['kind'], t['qs'], t['chans'], t['dur'], t['tag'], t['extra']) for t in d['templates']], d['templates']


def directed(name, quick):
    """Hand-directed families (shapes deeper than the bounded search reaches)."""
    out = []
    if name == 'flatdir':
        # main = [optional leading op]; sub1 over qubits {0,1,2}; sub2 over {0..3}; nested one after the other, (unrolled,) flattened twice
        import itertools
        qsets1 = [c for r in (1, 2, 3) for c in itertools.combinations((0, 1, 2), r)]
        qsets2 = [c for r in (1, 2) for c in itertools.permutations((0, 1, 2, 3), r)]
        for lead in (None, 0, 3):
            for s1 in qsets1:
                for s2 in qsets2:
                    for rep in ((1, -2) if quick and len(s1) == 2 and len(s2) == 1 else (1,) if quick else (1, 2, -2)):
                        # rep -2: a count of 2 that is still pending when the circuit is flattened (flattening keeps every leaf once)
                        pending, rep = rep < 0, abs(rep)
                        P = PB.Prog()
                        main = P.new()
                        if lead is not None:
                            P.add(main, PB.X(lead))
                        a = P.new(rep=rep)
                        for q in s1:
                            P.add(a, PB.X(q))
                        b = P.new()
                        for q in s2:
                            P.add(b, PB.X(q) if q != 3 else PB.M(q))
                        P.add_sub(main, a)
                        P.add_sub(main, b)
                        if rep > 1 and not pending:
                            P.act('Apply', main)
                        P.act('Flatten', main)
                        P.act('Flatten', main)
                        out.append(P.steps)
    if name == 'qldir':
        # pairs of circuits with the same sequence of operation kinds but different qubits / wait durations, exported in one
        # process; flat and nested, repetition counts 1 and 2
        kinds = ['Rx180', 'Ry90', 'Hadamard', 'Reset']
        for k1 in kinds:
            for (qa, qb) in ((0, 1), (2, 0)):
                for wd in ((4, 8), (12, 4)):
                    for nest in (False, True):
                        for rep in (1, 2):
                            P = PB.Prog()
                            cs = []
                            for q, d in zip((qa, qb), wd):
                                c = P.new()
                                P.add(c, PB.leaf(k1, [q], [[q, 'MICROWAVE' if k1 != 'Reset' else 'ALL']], ['global', 'MW' if k1 != 'Reset' else 'RST']))
                                if nest:
                                    s_ = P.new(rep=rep)
                                    P.add(s_, PB.W(q, d))
                                    P.add(s_, PB.leaf('CPhase', [q, 3], [[q, 'FLUX'], [q, 'MICROWAVE'], [3, 'FLUX'], [3, 'MICROWAVE']], ['global', 'FL']))
                                    P.add_sub(c, s_)
                                else:
                                    P.add(c, PB.W(q, d))
                                P.add(c, PB.M(q))
                                cs.append(c)
                            out.append(P.steps)
        # ... and the same pair as SIBLINGS inside one parent (same sequence of kinds, different qubits / wait durations): each
        # block's instructions must name its own qubits (on the unchanged tree the export is refused: known finding S8b)
        for k1 in kinds[:2]:
            for (qa, qb) in ((0, 1), (2, 0)):
                for rep in (1, 2):
                    P = PB.Prog()
                    m = P.new()
                    P.add(m, PB.leaf(k1, [3], [[3, 'MICROWAVE']], ['global', 'MW']))
                    for q, d in zip((qa, qb), (4, 12)):
                        s_ = P.new(rep=rep)
                        P.add(s_, PB.leaf('Ry90', [q], [[q, 'MICROWAVE']], ['global', 'MW']))
                        P.add(s_, PB.W(q, d))
                        P.add_sub(m, s_)
                    P.add(m, PB.M(qa))
                    out.append(P.steps)
    if name == 'subrel':
        # sub-circuits whose own relation refers to an earlier entry of the parent -- a plain operation or an already nested
        # sub-circuit (at the start of the parent or behind another operation) -- on qubits nothing else has touched
        import itertools
        for rt, lead, target, tail in itertools.product(('FB', 'JS', 'JE'), (False, True), ('sub', 'op', 'both'), (False, True)):
            P = PB.Prog()
            m = P.new()
            head = P.add(m, PB.leaf('Rx180', [0], [[0, 'MICROWAVE']], ['global', 'MW'])) if lead else None
            s1 = P.new()
            P.add(s1, PB.leaf('Ry90', [0], [[0, 'MICROWAVE']], ['global', 'MW']))
            P.add(s1, PB.W(0, 12))
            h1 = P.add_sub(m, s1)
            if target in ('sub', 'both'):
                s2 = P.new(link={'k': 'one', 'ref': h1, 'refs': [], 'rt': rt})
                P.add(s2, PB.leaf('Rym90', [1], [[1, 'MICROWAVE']], ['global', 'MW']))
                P.add(s2, PB.W(1, 2))
                P.add_sub(m, s2)
            if target in ('op', 'both') and head:
                s3 = P.new(link={'k': 'one', 'ref': head, 'refs': [], 'rt': rt})
                P.add(s3, PB.leaf('Ry180', [2], [[2, 'MICROWAVE']], ['global', 'MW']))
                P.add_sub(m, s3)
            if tail:
                P.add(m, PB.M(1))
            out.append(P.steps)
    if name == 'nest3':
        # three levels: the middle block follows an operation of the top circuit (explicitly or by the implicit rule), the
        # innermost block is the first thing on its own qubit; read zero, one or two times, then flattened / unrolled / left
        import itertools
        for explicit, first, obs, end, rep in itertools.product((False, True), (False, True), ((), ('ops',), ('full',), ('ops', 'ops')), (None, 'Flatten', 'Apply'), (1, 2)):
            if end != 'Apply' and rep != 1:
                continue
            P = PB.Prog()
            top = P.new()
            a_ = P.add(top, PB.leaf('Rx180', [0], [[0, 'MICROWAVE']], ['global', 'MW']))
            P.add(top, PB.W(0, 8))
            inner = P.new(rep=rep)
            P.add(inner, PB.leaf('Ry90', [1], [[1, 'MICROWAVE']], ['global', 'MW']))
            mid = P.new(link={'k': 'one', 'ref': a_, 'refs': [], 'rt': 'FB'}) if explicit else P.new()
            if first:
                P.add_sub(mid, inner)
                P.add(mid, PB.W(0, 4))
            else:
                P.add(mid, PB.W(0, 4))
                P.add_sub(mid, inner)
            P.add_sub(top, mid)
            for o in obs:
                P._step(a='Obs', c=top, what=o)
            if end:
                P.act(end, top)
            out.append(P.steps)
    if name == 'applyalias':
        # the build goes on after apply_modifiers -- through the handle that was called, the handle that was returned, or both
        # alternately: a repeated block is added, and modifiers are applied again through either handle
        import itertools
        for add_via, apply_via, rep, leaf_first in itertools.product(('old', 'new'), ('old', 'new'), (2, 3), (False, True)):
            P = PB.Prog()
            c = P.new()
            P.add(c, PB.leaf('Rx180', [0], [[0, 'MICROWAVE']], ['global', 'MW']))
            b0 = P.new(rep=2)
            P.add(b0, PB.W(0, 4))
            P.add_sub(c, b0)
            hnew = P.fresh()
            P.kids[hnew] = P.kids[c]                 # an alias: same structure
            P.is_comp.add(hnew)
            P.act('Apply', c, id=hnew, what='alias')
            via = {'old': c, 'new': hnew}
            if leaf_first:
                P.add(via[add_via], PB.M(0))
            blk = P.new(rep=rep)
            P.add(blk, PB.leaf('Ry90', [1], [[1, 'MICROWAVE']], ['global', 'MW']))
            P.add(blk, PB.leaf('Rym90', [1], [[1, 'MICROWAVE']], ['global', 'MW']))
            P.add_sub(via[add_via], blk)
            P.act('Apply', via[apply_via])
            out.append(P.steps)
    if name == 'drawdir':
        # operations spanning several qubits (barriers on 3 qubits in any order of their qubits, two-qubit gates on
        # non-adjacent rows) drawn under every channel order of three / four rows
        import itertools
        for compact in ('draw', 'drawnc'):
            for bq in ((0, 1, 2), (2, 0, 1), (1, 3, 0)):
                rows = sorted(set(bq) | {0, 1, 2})
                for order in itertools.permutations(rows):
                    if compact == 'drawnc' and order[0] > order[-1]:
                        continue
                    P = PB.Prog()
                    c = P.new()
                    for q_ in rows:
                        P.add(c, PB.leaf('Rx180', [q_], [[q_, 'MICROWAVE']], ['global', 'MW']))
                    P.add(c, PB.leaf('Barrier', list(bq), [[q_, 'ALL'] for q_ in bq], ['fixed', 2]))
                    P.add(c, PB.leaf('CPhase', [rows[0], rows[-1]], [[rows[0], 'FLUX'], [rows[0], 'MICROWAVE'], [rows[-1], 'FLUX'], [rows[-1], 'MICROWAVE']], ['global', 'FL']))
                    P.add(c, PB.M(rows[1]))
                    P._step(a='Obs', c=c, what=compact, order=list(order))
                    out.append(P.steps)
    if name == 'flatnest':
        # repetition inside repetition (both counts >= 2), unrolled once, then flattened twice; measurements inside so that the
        # exported program has something to count
        import itertools
        for ro, ri, pos, wrap in itertools.product((2, 3), (2, 3), ('first', 'last'), (False, True)):
            P = PB.Prog()
            inner = P.new(rep=ri)
            P.add(inner, PB.X(1))
            P.add(inner, PB.M(1))
            outer = P.new(rep=ro)
            if pos == 'last':
                P.add(outer, PB.X(0))
            P.add_sub(outer, inner)
            if pos == 'first':
                P.add(outer, PB.X(0))
            tgt = outer
            if wrap:
                tgt = P.new()
                P.add(tgt, PB.M(0))
                P.add_sub(tgt, outer)
            P.act('Apply', tgt)
            P.act('Flatten', tgt)
            P.act('Flatten', tgt)
            out.append(P.steps)
    if name == 'implicitdeep':
        # a chain on one channel, then an operation tied explicitly to an EARLY link of the chain (so the most recently added
        # operation on the channel is not the deepest one), then something added without relation: it follows the deepest
        import itertools
        for n, tgt, rt, last, dur in itertools.product((3, 4), (0, 1), ('FB', 'JS', 'JE'), ('op', 'sub', 'two'), (2, 12)):
            P = PB.Prog()
            c = P.new()
            chain = [P.add(c, PB.W(0, 4 + 2 * k)) for k in range(n)]
            P.add(c, PB.leaf('Rx180', [0], [[0, 'MICROWAVE']], ['fixed', dur]), ref=chain[tgt], rt=rt)
            if last == 'op':
                P.add(c, PB.leaf('Ry90', [0], [[0, 'MICROWAVE']], ['global', 'MW']))
            elif last == 'two':
                P.add(c, PB.leaf('CPhase', [0, 1], [[0, 'FLUX'], [0, 'MICROWAVE'], [1, 'FLUX'], [1, 'MICROWAVE']], ['global', 'FL']))
            else:
                s_ = P.new()
                P.add(s_, PB.leaf('Ry90', [0], [[0, 'MICROWAVE']], ['global', 'MW']))
                P.add_sub(c, s_)
            out.append(P.steps)
    if name == 'regrep':
        # a block whose count comes from a registry is nested; the registry value is set or changed AFTER the nesting (and after
        # a further nesting level), then modifiers are applied
        import itertools
        for v0, v1, depth, early in itertools.product((None, 2), (3, 2), (1, 2), (False, True)):
            if v0 == v1:
                continue
            P = PB.Prog()
            if v0 is not None:
                P.act('SetRep', key='r1', val=v0)
            blk = P.new(rep=('reg', 'r1'))
            P.add(blk, PB.X(0))
            P.add(blk, PB.M(0))
            top = P.new()
            P.add(top, PB.X(1))
            if depth == 2:
                mid = P.new(rep=2)
                P.add_sub(mid, blk)
                P.add(mid, PB.W(1, 4))
                if early:
                    P.act('SetRep', key='r1', val=v1)
                P.add_sub(top, mid)
            else:
                P.add_sub(top, blk)
            if not (early and depth == 2):
                P.act('SetRep', key='r1', val=v1)
            P.act('Apply', top)
            out.append(P.steps)
    if name == 'durhist':
        # the duration is read, then a registry duration (of a top-level or nested operation) changes without anything being
        # added, and the duration is read again; also read / unroll / read
        for nested in (False, True):
            for v0, v1 in ((8, 24), (24, 8), (8, 2)):
                for fixed in (4, 12):
                    P = PB.Prog()
                    c = P.new()
                    P.add(c, PB.W(0, fixed))
                    tgt = c
                    if nested:
                        tgt = P.new()
                    P.add(tgt, PB.leaf('Wait', [1], [[1, 'ALL']], ['reg', 'k1']))
                    P.add(tgt, PB.leaf('Rx180', [1], [[1, 'MICROWAVE']], ['global', 'MW']))
                    if nested:
                        P.add_sub(c, tgt)
                    P.act('SetDur', key='k1', val=v0)
                    P._step(a='Obs', c=c, what='full')
                    P.act('SetDur', key='k1', val=v1)
                    P._step(a='Obs', c=c, what='full')
                    out.append(P.steps)
    if name == 'qlreal':
        # a handful of circuits that also go through the real OpenQL compiler: runs of equal pulses (x90 x90 ..), idle and
        # Hadamard, the parity-check pattern, waits, a nested block -- what is scheduled must be what was listed
        mw = lambda k, q: PB.leaf(k, [q], [[q, 'MICROWAVE']], ['global', 'MW'])
        cz = lambda a_, b_: PB.leaf('CPhase', [a_, b_], [[a_, 'FLUX'], [a_, 'MICROWAVE'], [b_, 'FLUX'], [b_, 'MICROWAVE']], ['global', 'FL'])
        runs = [['Rx90'] * 4, ['Ry90', 'Ry90'], ['Identity', 'Rx180'], ['Hadamard', 'Hadamard'], ['Rx180', 'Rx180'], ['Rxm90', 'Rx90'],
                ['Rym90', 'Ry90', 'Ry180'], ['Rx90', 'Ry90', 'Rx90']]
        for k, run in enumerate(runs):
            for nest in (False, True):
                P = PB.Prog()
                c = P.new()
                tgt = c
                if nest:
                    P.add(c, PB.leaf('Reset', [0], [[0, 'ALL']], ['global', 'RST']))
                    tgt = P.new()
                for kind in run:
                    P.add(tgt, mw(kind, 0))
                P.add(tgt, mw('Ry90', 1))
                P.add(tgt, cz(1, 2))
                P.add(tgt, mw('Rym90', 1))
                if k % 2:
                    P.add(tgt, PB.W(0, 8))
                P.add(tgt, PB.M(1))
                if nest:
                    P.add_sub(c, tgt)
                P._step(a='Obs', c=c, what='fullql')
                out.append(P.steps)
    if name == 'unroll3':
        # three parallel operations of unequal length (every order of the lengths), optionally a fourth chained one, repeated
        import itertools
        for perm in itertools.permutations((2, 12, 6)):
            for rep in (2, 3):
                for tail in (False, True):
                    P = PB.Prog()
                    m = P.new(rep=rep)
                    hs = [P.add(m, PB.W(q, d)) for q, d in enumerate(perm)]
                    if tail:
                        P.add(m, PB.W(3, 4), ref=hs[0], rt='FB')
                    P.act('Apply', m)
                    out.append(P.steps)
    if name == 'twinblocks':
        # a (repeated) block that begins with two parallel nested blocks on different qubits, one of them followed inside the
        # block; unrolled / nested / copied, with and without the listing having been read before
        import itertools
        for rep, obs, route, order, dur, early in itertools.product((1, 2, 3), (None, 'full', 'ops'), ('Apply', 'AddSub', 'CopyCirc'), (0, 1), (4, 50), (False, True)):
            if (route == 'Apply' and rep == 1) or (early and not obs):
                continue
            P = PB.Prog()
            a = P.new()
            P.add(a, PB.leaf('Rx180', [0], [[0, 'MICROWAVE']], ['global', 'MW']))
            b = P.new()
            P.add(b, PB.W(1, dur))
            blk = P.new(rep=rep)
            subs = [a, b] if order == 0 else [b, a]
            na = [P.add_sub(blk, x) for x in subs]
            P.add(blk, PB.leaf('Ry90', [0], [[0, 'MICROWAVE']], ['global', 'MW']))
            top = P.new()
            P.add(top, PB.W(0, 2))
            if obs and early:
                P._step(a='Obs', c=blk, what=obs)          # the block's own listing is read before it is nested
            P.add_sub(top, blk)
            if obs and not early:
                P._step(a='Obs', c=top, what=obs)
            if route == 'Apply':
                P.act('Apply', top)
            elif route == 'CopyCirc':
                P.copy(top)
            else:
                outer = P.new()
                P.add(outer, PB.W(2, 2))
                P.add_sub(outer, top)
            out.append(P.steps)
    if name == 'twinops':
        # equal-valued operations (same kind, same qubit, no relation of their own) at the top level and at the head of a nested
        # block, an explicit relation to the top-level one, then the circuit is copied / nested -- with and without the listing
        # having been read before
        import itertools
        for kind, route, obs, rt in itertools.product(('Rx180', 'Hadamard', 'Wait'), ('CopyCirc', 'AddSub'), (None, 'full', 'ops', 'plot'), ('FB', 'JS')):
            mk = (lambda q: PB.W(q, 4)) if kind == 'Wait' else (lambda q: PB.leaf(kind, [q], [[q, 'MICROWAVE']], ['global', 'MW']))
            P = PB.Prog()
            m = P.new()
            a = P.add(m, mk(0))
            sub = P.new()
            P.add(sub, mk(0))
            P.add(sub, PB.M(0))
            P.add_sub(m, sub)
            P.add(m, PB.leaf('Ry90', [1], [[1, 'MICROWAVE']], ['global', 'MW']), ref=a, rt=rt)
            if obs:
                P._step(a='Obs', c=m, what=obs)
            if route == 'CopyCirc':
                P.copy(m)
            else:
                outer = P.new()
                P.add(outer, PB.W(2, 2))
                P.add_sub(outer, m)
            out.append(P.steps)
    if name == 'acqdir':
        # measurements before / inside / after a repeated block; the indices are read at some point of the build, then the
        # block is unrolled (already indexed measurements move) and the indices are read again
        import itertools
        for rep, qb, ql, tl, lead, when, kind, bare in itertools.product((2, 3), (0, 1), (0, 1), ('', 'a'), (False, True), (0, 1, 2), ('full', 'ops'), ('', 'bare')):
            P = PB.Prog()
            m = P.new()
            if lead:
                P.add(m, PB.M(0, 'a'))
            if when == 0:
                P._step(a='Obs', c=m, what=kind)
            b = P.new(rep=rep)
            P.add(b, PB.X(qb))
            P.add(b, PB.M(qb))
            P.add_sub(m, b, what=bare)
            if when == 1:
                P._step(a='Obs', c=m, what=kind)
            P.add(m, PB.M(ql, tl))
            if when == 2:
                P._step(a='Obs', c=m, what=kind)
            P.act('Apply', m)
            out.append(P.steps)
            if when == 2 and kind == 'full' and not bare:
                # ... and the build goes on through the handle that apply_modifiers returned: one more measurement (created
                # against that handle's registry), unrolled again
                P2 = PB.Prog()
                P2.steps = [dict(x) for x in P.steps]
                P2.n, P2.kids, P2.is_comp = P.n, {k: list(v) for k, v in P.kids.items()}, set(P.is_comp)
                P2.add(m, PB.M(ql, 'late'))
                P2.act('Apply', m)
                out.append(P2.steps)
        # two sibling blocks measuring different qubits in parallel: unrolled, indices read (or not), then flattened -- flattening keeps
        # the number of operations but re-lists the parallel measurements, so indices read before it must not survive it
        for rep, obs, tags in itertools.product((1, 2), ((), ('full',), ('ops',)), ((('', ''), ('', '')), (('cycle', 'final'), ('cycle', 'final')))):
            P = PB.Prog()
            m = P.new()
            for qb in (0, 1):
                b = P.new(rep=rep)
                P.add(b, PB.M(qb, tags[qb][0]))
                P.add(b, PB.M(qb, tags[qb][1]))
                P.add_sub(m, b)
            P.act('Apply', m)
            for o in obs:
                P._step(a='Obs', c=m, what=o)
            P.act('Flatten', m)
            out.append(P.steps)
    if name == 'copyapplied':
        # a block of parallel operations, repeated, unrolled, THEN copied / nested; afterwards the registry duration changes
        for n in (2, 3):
            for route in ('CopyCirc', 'AddSub'):
                for d0 in (4, 12):
                    for change in (False, True):
                        P = PB.Prog()
                        c = P.new(rep=n)
                        P.add(c, PB.W(0, d0))
                        P.add(c, PB.leaf('Wait', [1], [[1, 'ALL']], ['reg', 'k1']))
                        x = P.add(c, PB.X(2))
                        P.add(c, PB.W(2, 2), ref=x, rt='JS')
                        P.act('SetDur', key='k1', val=6)
                        P.act('Apply', c)
                        if route == 'CopyCirc':
                            P.copy(c)
                        else:
                            m = P.new()
                            P.add(m, PB.W(0, 2))
                            P.add_sub(m, c)
                        if change:
                            P.act('SetDur', key='k1', val=20)
                        out.append(P.steps)
    return out


SOURCES = {
    'C01': ('flat', 'nest', 'chan', 'deep', 'subrel', 'implicitdeep', 'twinblocks', 'unroll2', 'unroll3', 'sim', 'repotests', 'library'),
    'C02': ('kinds', 'twinblocks', 'subrel', 'nest3', 'flat', 'nest', 'chan', 'deep', 'obsnest', 'sim', 'repotests', 'library'),
    'C04': ('flat', 'nest', 'nest0', 'durhist', 'subrel', 'sim', 'repotests'),
    'C05': ('kinds', 'copyapplied', 'twinops', 'twinblocks', 'regrep', 'nest', 'mask', 'sim'),
    'C06': ('unroll', 'unroll2', 'unroll3', 'applyalias', 'regrep', 'twinblocks', 'nest', 'sim', 'library'),
    'C07': ('acq', 'acqdir', 'sim'),
    'C11': ('flatten', 'flatdir', 'flatnest', 'sim', 'library'),
    'C03': ('hist', 'plothist', 'acq', 'acqdir', 'twinops', 'twinblocks', 'durhist', 'nest3', 'obsnest', 'sim'),
    'C08': ('kinds', 'export', 'regrep', 'sim', 'library'),
    'C18': ('drawkinds', 'drawdir', 'drawhist', 'drawnest'),
    'C15': ('kinds', 'export', 'qldir', 'qlreal'),
}


def programs_for(pid, tier, seed):
    """List of sources (name, programs, TLC statistics).  Alphabets are chosen per property; everything is generated by
    TLC from spec/CircuitGen.tla and goes through the same trace specification."""
    quick = tier == 'quick'
    out = []
    want = SOURCES[pid]
    if os.environ.get('VERIF_ONLY_SOURCES'):           # development aid: restrict to some sources (never set by registered commands)
        want = tuple(x for x in want if x in os.environ['VERIF_ONLY_SOURCES'].split(','))

    def g(name, menu, cap=None, keep=None, **kw):
        if name not in want:
            return
        progs, res, total = gen.run_gen(name, menu, seed=seed, cap=None, **kw)
        if keep:
            progs = [p for p in progs if keep(p)]
        if cap and len(progs) > cap:
            progs.sort(key=lambda p: json.dumps(p, sort_keys=True))
            progs = random.Random(seed).sample(progs, cap)
        out.append({'name': name, 'programs': progs, 'generated': total, 'tlc_states': res.distinct, 'tlc_generated': res.generated,
                    'mode': 'simulate' if kw.get('simulate') else 'exhaustive'})

    # (1) exhaustive, flat: every relation type x reference x duration (incl. zero-length) over two qubits
    g('flat', waits(Q2) if not quick else waits((0,)) + waits((1,), chans=('ALL',), durs=(4,)), max_circs=1, max_objs=4, max_steps=4,
      cap=700 if quick else 6000, one_in=8 if quick else 4, workers=4)
    # (2) exhaustive, nesting: a sub-circuit nested in a circuit, repetition counts, unrolled
    g('nest', [gen.leaf('Wait', [0], [[0, 'ALL']], ['fixed', 4]), gen.leaf('Wait', [0], [[0, 'MICROWAVE']], ['fixed', 12]),
               gen.leaf('Wait', [1], [[1, 'ALL']], ['fixed', 0]), gen.leaf('Rx180', [1], [[1, 'MICROWAVE']], ['global', 'MW'])],
      reps=[('fixed', 1), ('fixed', 2)], acts=('NewCircuit', 'AddOp', 'AddSub', 'Apply', 'Obs'), linktypes=('FB', 'JE'),
      max_circs=2, max_objs=5, max_steps=5 if quick else 6, cap=700 if quick else 6000, one_in=100 if quick else 50, workers=4)
    # (2a') exhaustive, tiny alphabet: the listing is read in the middle of the build, then a sub-circuit / operation is added
    g('obsnest', [gen.leaf('Wait', [0], [[0, 'ALL']], ['fixed', 4]), gen.leaf('DispersiveMeasure', [1], [[1, 'READOUT']], ['global', 'RO'])],
      reps=[('fixed', 1), ('fixed', 2)], acts=('NewCircuit', 'AddOp', 'AddSub', 'Apply', 'Obs'), obskinds=('full', 'ops'), linktypes=(), max_circs=2, max_objs=8,
      max_steps=6 if quick else 7, workers=8, min_emit=5, timeout=900, cap=1500 if quick else 20000,
      keep=lambda p: any(s['a'] == 'Obs' and any(t['a'] in ('AddSub', 'Apply') for t in p[i + 1:]) for i, s in enumerate(p)))
    # (2a'') like (2), with a block whose repetition count evaluates to 0 (the library builds such blocks itself): it still spans
    #        what it contains
    g('nest0', [gen.leaf('Wait', [0], [[0, 'ALL']], ['fixed', 4]), gen.leaf('Wait', [1], [[1, 'ALL']], ['fixed', 12])],
      reps=[('fixed', 1), ('fixed', 0)], acts=('NewCircuit', 'AddOp', 'AddSub'), linktypes=('FB', 'JE'),
      max_circs=2, max_objs=7, max_steps=6, cap=800 if quick else 6000, one_in=10 if quick else 2, workers=4, min_emit=4,
      keep=lambda p: any(s['a'] == 'AddSub' for s in p))
    # (2a''') extension: flat circuits rebuilt by replace_operation with masks (advisory clauses E05.mask.*; the rebuilt circuit is
    #         then judged like any other circuit)
    g('mask', [gen.leaf('Wait', [0], [[0, 'ALL']], ['fixed', 4]), gen.leaf('Rx180', [0], [[0, 'MICROWAVE']], ['global', 'MW']),
               gen.leaf('VirtualPark', [1], [[1, 'FLUX']], ['global', 'FL']), gen.leaf('CPhase', [0, 1], [[0, 'FLUX'], [0, 'MICROWAVE'], [1, 'FLUX'], [1, 'MICROWAVE']], ['global', 'FL']),
               gen.leaf('DispersiveMeasure', [1], [[1, 'READOUT']], ['global', 'RO'])],
      acts=('NewCircuit', 'AddOp', 'Mask'), linktypes=('FB', 'JS'), max_circs=2, max_objs=9, max_steps=5, workers=4, min_emit=4,
      cap=300 if quick else 4000, one_in=4 if quick else 1,
      masks=[gen.mask_list(gen.mask('op', kind='Rx180', q=0)), gen.mask_list(gen.mask('chan', q=0, chan='MICROWAVE')),
             gen.mask_list(gen.mask('chan', q=1, chan='FLUX'), gen.mask('chan', q=1, chan='READOUT')),
             gen.mask_list(gen.mask('two', q=0, chan='FLUX')), gen.mask_list(gen.mask('two', q=1, q2=0, chan='FLUX'), gen.mask('op', kind='Wait', q=0))],
      keep=lambda p: p[-1]['a'] == 'Mask')
    # (2b) exhaustive, implicit rule across nesting: one qubit, every channel kind, no explicit relation; a sub-circuit's
    #      channels are what its operations occupy (ALL bridges the specific channels)
    one = [gen.leaf('Wait', [0], [[0, ch]], ['fixed', 4]) for ch in ('ALL', 'MICROWAVE', 'FLUX')] + meas((0,), tags=('',))

    def sub_then_add(p):
        k = [i for i, s in enumerate(p) if s['a'] == 'AddSub']
        return bool(k) and any(s['a'] == 'AddOp' and s['c'] == p[k[0]]['c'] for s in p[k[0] + 1:]) and \
            sum(1 for s in p[:k[0]] if s['a'] == 'AddOp' and s['c'] == p[k[0]]['s']) >= 2
    g('chan', one, acts=('NewCircuit', 'AddOp', 'AddSub'), linktypes=(), max_circs=2, max_objs=9, max_steps=6 if quick else 7,
      cap=1500 if quick else 20000, workers=4, min_emit=6, keep=sub_then_add)
    # (2c) exhaustive, relations that refer to an operation nested inside an already added sub-circuit (the library warns
    #      and falls back to the implicit rule; the listing must stay causal with respect to what operations report)
    g('deep', [gen.leaf('Wait', [0], [[0, 'ALL']], ['fixed', 4]), gen.leaf('Rx180', [2], [[2, 'MICROWAVE']], ['global', 'MW'])]
      + ([] if quick else [gen.leaf('Wait', [1], [[1, 'MICROWAVE']], ['fixed', 12])]),
      acts=('NewCircuit', 'AddOp', 'AddSub'), linktypes=('FB',) if quick else ('FB', 'JS'), max_circs=2, max_objs=9, max_steps=6, deep=True,
      cap=1200 if quick else 8000, workers=4, min_emit=6,
      keep=lambda p: any(s['a'] == 'AddSub' for s in p) and p[-1]['a'] == 'AddOp' and p[-1]['link']['k'] == 'one')
    # (2d) every operation class in every position (first, implicit successor, explicit FB/JS/JE, referenced by a later
    #      operation), then copied by each route: explicit copy, nesting, unrolling
    if 'kinds' in want or 'export' in want or 'drawkinds' in want:
        menu, _templates = kinds_menu()
        anchor = gen.leaf('Wait', [0], [[0, 'ALL']], ['fixed', 4])
        anchors = [anchor]
        # the exploration starts from a circuit (count 2) that already holds one anchor operation
        init = '''M_Anchor == %s
M_Init == /\\ heap = DoNewCircuit(DoAddOp(DoNewCircuit(<<>>, "n1", NoLink, <<"fixed", 2>>), "n1", "n2", M_Anchor, NoLink), "n3", NoLink, <<"fixed", 1>>)
          /\\ tops = {"n1", "n3"} /\\ sealed = {} /\\ env = InitEnv /\\ next = 4
          /\\ hist = << Step("NewCircuit", "n1", "n1", None, NoM, NoLink, <<"fixed", 2>>, "", 0, ""),
                       Step("AddOp", "n1", "n2", None, M_Anchor, NoLink, <<"fixed", 1>>, "", 0, ""),
                       Step("NewCircuit", "n3", "n3", None, NoM, NoLink, <<"fixed", 1>>, "", 0, "") >>''' % anchor
        g('kinds', menu + anchors, anchors=anchors, max_non_anchor=1, reps=[('fixed', 1)], linktypes=('FB', 'JE') if quick else ('FB', 'JS', 'JE'),
          acts=('NewCircuit', 'AddOp', 'AddSub', 'CopyCirc', 'Apply'), max_circs=2, max_objs=9, max_steps=6, workers=8, min_emit=6, timeout=900,
          init_defs=init,
          cap=2500 if quick else 30000,
          keep=lambda p: p[-1]['a'] in ('AddSub', 'CopyCirc', 'Apply') and any(s['a'] == 'AddOp' and s['m']['kind'] != 'Wait' for s in p)
          and sum(1 for s in p if s['a'] in ('AddSub', 'CopyCirc', 'Apply')) == 1)
        # (2d'') every operation class drawn (compact and non-compact, various channel orders / label maps) in every position
        g('drawkinds', menu + anchors, anchors=anchors, max_non_anchor=1, reps=[('fixed', 1)], linktypes=('FB', 'JE'), configs=(gen.DEFAULT_CFG, CFG_A),
          acts=('AddOp', 'Obs'), obskinds=('draw', 'drawnc'), max_circs=2, max_objs=7, max_steps=6, workers=8, min_emit=5, timeout=900, init_defs=init,
          cap=1500 if quick else 20000,
          keep=lambda p: any(s['a'] == 'Obs' for s in p) and any(s['a'] == 'AddOp' and s['m']['kind'] != 'Wait' for s in p[3:]))
        # (2d') every operation class (supported and unsupported by the exporters), nested, repeated, unrolled: simulation
        g('export', menu, reps=[('fixed', 1), ('fixed', 2), ('fixed', 3)], acts=('NewCircuit', 'AddOp', 'AddSub', 'Apply'), linktypes=('FB',),
          max_circs=3, max_objs=14, max_steps=10, simulate='num=%d' % (14 if quick else 600), depth=11, min_emit=5, one_in=4,
          cap=1500 if quick else 20000, timeout=900,
          keep=lambda p: any(s['a'] == 'AddSub' for s in p))
    # (2e) nested repetition: depth 3, counts 1..3 at every level (fixed and registry-provided), applied twice
    g('unroll', [gen.leaf('Wait', [0], [[0, 'ALL']], ['fixed', 4]), gen.leaf('Wait', [1], [[1, 'ALL']], ['fixed', 12]),
                 gen.leaf('Rx180', [0], [[0, 'MICROWAVE']], ['global', 'MW'])],
      reps=[('fixed', 1), ('fixed', 2), ('fixed', 3), ('reg', 'r1')], acts=('NewCircuit', 'AddOp', 'AddSub', 'Apply', 'Reapply', 'SetRep'),
      linktypes=('FB',), max_circs=3, max_objs=12, max_steps=9, simulate='num=%d' % (1200 if quick else 12000), depth=10, min_emit=6,
      one_in=4, cap=1500 if quick else 20000, timeout=900,
      keep=lambda p: any(s['a'] == 'Apply' for s in p) and any(s['a'] == 'AddSub' for s in p))
    # (2e') exhaustive, tiny alphabet: a repeated block nested in a repeated block next to a parallel operation whose length
    #       lies between one pass and all passes of the inner block (which relation leaf ends last changes while unrolling)
    g('unroll2', [gen.leaf('Wait', [0], [[0, 'ALL']], ['fixed', 4]), gen.leaf('Wait', [1], [[1, 'ALL']], ['fixed', 6])],
      reps=[('fixed', 2), ('fixed', 3)], acts=('NewCircuit', 'AddOp', 'AddSub', 'Apply'), linktypes=(), max_circs=2, max_objs=8,
      max_steps=6 if quick else 7, workers=8, min_emit=6, timeout=900, cap=1500 if quick else 20000,
      keep=lambda p: p[-1]['a'] == 'Apply' and any(s['a'] == 'AddSub' for s in p))
    for dn in ('flatdir', 'copyapplied', 'qldir', 'acqdir', 'unroll3', 'twinops', 'twinblocks', 'qlreal', 'durhist', 'subrel', 'nest3', 'applyalias', 'drawdir', 'flatnest', 'implicitdeep', 'regrep'):
        if dn in want:
            out.append({'name': dn, 'programs': directed(dn, quick), 'generated': 0, 'tlc_states': 0, 'tlc_generated': 0, 'mode': 'directed family (python)'})
            out[-1]['generated'] = len(out[-1]['programs'])
    # (2f) measurements on interleaved qubits with tags, against the registry of the circuit or of a sub-circuit nested
    #      later, unrolled
    g('acq', meas(Q2) + [gen.leaf('Rx180', [0], [[0, 'MICROWAVE']], ['global', 'MW'])],
      reps=[('fixed', 1), ('fixed', 2)], acts=('NewCircuit', 'AddOp', 'AddSub', 'Apply', 'Obs'), linktypes=(), max_circs=3,
      max_objs=12, max_steps=9, simulate='num=%d' % (1200 if quick else 12000), depth=10, min_emit=5, one_in=1, cap=1500 if quick else 20000, timeout=900,
      keep=lambda p: p[-1]['a'] == 'Apply' and sum(1 for s in p if s['a'] == 'AddOp' and s['m']['kind'] == 'DispersiveMeasure') >= 2)
    # (2g) implicitly sequenced nested programs, flattened (twice)
    g('flatten', [gen.leaf('Wait', [0], [[0, 'ALL']], ['fixed', 4]), gen.leaf('Rx180', [1], [[1, 'MICROWAVE']], ['global', 'MW']),
                  gen.leaf('Rx180', [2], [[2, 'MICROWAVE']], ['global', 'MW'])] + meas((0, 3), tags=('',)) + two((0, 1)),
      reps=[('fixed', 1), ('fixed', 2)], acts=('NewCircuit', 'AddOp', 'AddSub', 'Apply', 'Flatten'), linktypes=(), max_circs=3,
      max_objs=14, max_steps=9, simulate='num=%d' % (200 if quick else 3000), depth=10, min_emit=5, one_in=1, cap=1500 if quick else 20000, timeout=900,
      keep=lambda p: any(s['a'] == 'Flatten' for s in p) and any(s['a'] == 'AddSub' for s in p))
    # (2h) histories: observations interleaved with mutations (C03)
    g('hist', [gen.leaf('Wait', [0], [[0, 'ALL']], ['reg', 'k1']), gen.leaf('Wait', [0], [[0, 'ALL']], ['fixed', 4]),
               gen.leaf('Rx180', [1], [[1, 'MICROWAVE']], ['global', 'MW']), gen.leaf('Barrier', [0, 1], [[0, 'ALL'], [1, 'ALL']], ['fixed', 2])] + meas((0, 1)),
      reps=[('fixed', 1), ('fixed', 2)], configs=(gen.DEFAULT_CFG, CFG_A),
      acts=('NewCircuit', 'AddOp', 'AddSub', 'Apply', 'SetDur', 'Enter', 'Leave', 'Obs', 'CopyCirc'), linktypes=('FB',), max_circs=2,
      obskinds=('full', 'plot', 'stim', 'ops'),
      max_objs=10, max_steps=9, simulate='num=%d' % (200 if quick else 3000), depth=10, min_emit=5, one_in=2, cap=1200 if quick else 15000, timeout=900,
      keep=lambda p: any(s['a'] == 'Obs' for s in p[:-1]))
    # (2i) exhaustive, tiny alphabet: drawing (compact / non-compact) inside and outside a global-duration override, operations
    #      whose own duration does / does not depend on the global settings
    g('plothist', [gen.leaf('Rx180', [0], [[0, 'MICROWAVE']], ['global', 'MW']), gen.leaf('Barrier', [0, 1], [[0, 'ALL'], [1, 'ALL']], ['fixed', 2]),
                   gen.leaf('DispersiveMeasure', [1], [[1, 'READOUT']], ['global', 'RO'])],
      configs=(gen.DEFAULT_CFG, CFG_A), acts=('NewCircuit', 'AddOp', 'Enter', 'Leave', 'Obs'), linktypes=(), max_circs=1, max_objs=5,
      max_steps=7, obskinds=('plot', 'plotnc'), workers=8, min_emit=4, timeout=900, cap=1500 if quick else 20000,
      keep=lambda p: any(s['a'] == 'Obs' for s in p) and any(s['a'] == 'Enter' for s in p))
    # (2j) drawing inside / outside overrides, with mutations after the drawing (purity), tiny alphabet, exhaustive
    g('drawhist', [gen.leaf('Rx180', [0], [[0, 'MICROWAVE']], ['global', 'MW']), gen.leaf('Barrier', [0, 1], [[0, 'ALL'], [1, 'ALL']], ['fixed', 2]),
                   gen.leaf('DispersiveMeasure', [2], [[2, 'READOUT']], ['global', 'RO'])],
      configs=(gen.DEFAULT_CFG, CFG_A), acts=('NewCircuit', 'AddOp', 'Enter', 'Leave', 'Obs'), linktypes=('FB',), max_circs=1, max_objs=4,
      max_steps=6, obskinds=('draw', 'drawnc'), workers=8, min_emit=4, timeout=900, cap=1500 if quick else 20000,
      keep=lambda p: any(s['a'] == 'Obs' for s in p))
    # (2k) drawing nested / repeated circuits (highlights of repeated blocks), before and after unrolling
    g('drawnest', [gen.leaf('Rx180', [0], [[0, 'MICROWAVE']], ['global', 'MW']), gen.leaf('CPhase', [0, 1], [[0, 'FLUX'], [0, 'MICROWAVE'], [1, 'FLUX'], [1, 'MICROWAVE']], ['global', 'FL']),
                   gen.leaf('DispersiveMeasure', [1], [[1, 'READOUT']], ['global', 'RO'])],
      reps=[('fixed', 1), ('fixed', 2)], acts=('NewCircuit', 'AddOp', 'AddSub', 'Apply', 'Obs'), linktypes=(), max_circs=2, max_objs=9,
      max_steps=8, obskinds=('draw',), simulate='num=%d' % (300 if quick else 5000), depth=9, min_emit=4, one_in=2, timeout=900, cap=800 if quick else 10000,
      keep=lambda p: any(s['a'] == 'Obs' for s in p) and any(s['a'] == 'AddSub' for s in p))
    # (4) executions of code that was not written for verification, recorded through hooks on the builder API:
    #     the repository's own test files (unchanged), and the library constructors over an input grid observed as constructed /
    #     unrolled / flattened
    for hn, args in (('repotests', ['tests']), ('library', ['library', 3 if quick else 4, 4 if quick else 6])):
        if hn in want:
            pout = os.path.join(scratch(), hn + '_traces.json')
            run_impl('drv_hooks.py', [args[0], pout] + args[1:], timeout=6000)
            d = json.load(open(pout))
            out.append({'name': hn, 'programs': [], 'traces': d['traces'], 'labels': [m.get('file') or m.get('input') for m in d['meta'] if m.get('events')],
                        'generated': len(d['traces']), 'tlc_states': 0, 'tlc_generated': 0, 'mode': 'recorded through builder-API hooks'})
    # (3) simulation: long programs over the full alphabet, overrides, registry durations, copies, unrolling
    full = waits(Q3, chans=('ALL', 'MICROWAVE', 'FLUX'), durs=(0, 2, 6), reg=True) + gates(Q3) + meas(Q3) + two(Q3)
    g('sim', full, reps=[('fixed', 1), ('fixed', 2), ('fixed', 3), ('reg', 'r1')], configs=(gen.DEFAULT_CFG, CFG_A, CFG_B),
      acts=('NewCircuit', 'AddOp', 'AddSub', 'CopyCirc', 'Apply', 'Reapply', 'Flatten', 'SetDur', 'SetRep', 'Enter', 'Leave', 'Obs'),
      max_circs=3, max_objs=14, max_steps=12, simulate='num=%d' % (60 if quick else 1500), depth=13, min_emit=5, one_in=10,
      cap=800 if quick else 12000)
    return out


# ------------------------------------------------------------ trace validation
def offgrid(trace):
    txt = json.dumps(trace)
    return 'offgrid:' in txt


UNINTERPRETABLE = []     # (trace index, TLC message): traces TLC could not evaluate at all


def validate(traces, nchunks=14):
    """TLC role 3.  Traces are validated in parallel batches; returns (fails, stats)."""
    sc = scratch()
    idx = list(range(len(traces)))
    chunks = [idx[k::nchunks] for k in range(nchunks)]
    chunks = [c for c in chunks if c]
    jobs = []
    for k, ch in enumerate(chunks):
        tin = os.path.join(sc, 'tr_in_%d_%d.json' % (k, int(time.time() * 1000) % 10 ** 8))
        tout = tin.replace('tr_in', 'tr_out')
        json.dump([traces[i] for i in ch], open(tin, 'w'))
        jobs.append((k, ch, tin, tout))

    def run_chunk(k, ch, depth=0):
        """Validate the traces with indices ch in one TLC run; if TLC cannot evaluate the batch, bisect it so that one
        uninterpretable trace does not hide the verdicts on all the others."""
        tin = os.path.join(sc, 'tr_in_%d_%d_%d.json' % (k, depth, int(time.time() * 1e6) % 10 ** 9))
        tout = tin.replace('tr_in', 'tr_out')
        json.dump([traces[i] for i in ch], open(tin, 'w'))
        try:
            r = run_tlc('CircuitTrace', 'SPECIFICATION Spec\n', env={'VERIF_IN': tin, 'VERIF_OUT': tout}, workers=1,
                        name='CircuitTrace%d_%d' % (k, depth), timeout=3000)
            if not os.path.exists(tout):
                raise common.MachineryError('trace validation wrote no verdict:\n' + common.tail(r.out, 40))
        except common.MachineryError as e:
            if len(ch) == 1:
                UNINTERPRETABLE.append((ch[0], str(e)[-6000:]))
                return [], 0, 0, 0
            h = len(ch) // 2
            a = run_chunk(k, ch[:h], depth + 1)
            b = run_chunk(k, ch[h:], depth + 1)
            return a[0] + b[0], a[1] + b[1], a[2] + b[2], a[3] + b[3]
        res = json.load(open(tout))
        if res['traces'] != len(ch):
            raise common.MachineryError('trace validation consumed %s of %d traces' % (res['traces'], len(ch)))
        for f in res['fails']:
            f['trace'] = ch[f['tid'] - 1]
        return res['fails'], r.distinct, r.generated, res['nobs']

    def one(job):
        k, ch, tin, tout = job
        return run_chunk(k, ch)
    fails, states, gen_states, nobs = [], 0, 0, 0
    with cf.ThreadPoolExecutor(max_workers=nchunks) as ex:
        for fs, st_, gn_, nb_ in ex.map(one, jobs):
            fails += fs
            states += st_
            gen_states += gn_
            nobs += nb_
    return fails, {'states': states, 'transitions': gen_states, 'observations': nobs}


def execute(programs, repo=None):
    sc = scratch()
    pin = os.path.join(sc, 'progs_%d.json' % (int(time.time() * 1000) % 10 ** 8))
    pout = pin.replace('progs_', 'traces_')
    json.dump(programs, open(pin, 'w'))
    run_impl('replay.py', [pin, pout, '--procs', 16], repo=repo)
    traces = json.load(open(pout))
    for p, t in zip(programs, traces):
        implicit = not any(s.get('link', {}).get('k') == 'one' for s in p if s['a'] in ('AddOp', 'NewCircuit'))
        for e in t:
            if e['ev'] == 'Obs':
                e['implicit'] = implicit
    return traces


def counts_for(pid, clause, trace):
    """Which clause failures decide which property."""
    if clause.startswith(pid + '.'):
        return True
    if clause.startswith('C00.'):
        err = next((e for e in trace if e['ev'] == 'Error'), None)
        if err and (err['a'].startswith('Obs:plot') or err['a'].startswith('Obs:draw')):
            return pid == 'C18'         # drawing must succeed: judged by C18
        if err and err['a'] == 'Obs:stim':
            return pid == 'C08'
        return True                     # any other exception / unknown event inside a generated program concerns every property
    if pid == 'C05' and clause in ('C02.complete', 'C02.attrs') and any(e['ev'] in ('AddSub', 'CopyCirc', 'Apply') for e in trace):
        return True                     # independence: a copy (or its source) lists something it should not after a mutation
    if pid == 'C01' and clause == 'C04.followers':
        return True                     # an operation FOLLOWED_BY a block starts when the block (all of it) has ended
    if pid == 'C06' and clause in ('C01.eq.multi',):
        return True                     # chain rule: copy k+1 starts when the latest relation leaf before it has ended
    if pid == 'C06' and clause.startswith('C01.eq.') and any(e['ev'] == 'Apply' for e in trace):
        return True                     # the n copies are copies: inside each, every operation sits where its relation puts it
    if pid == 'C11' and clause in ('C02.complete', 'C02.attrs') and any(e['ev'] == 'Flatten' for e in trace):
        return True
    return False


NONTRIVIAL = {
    'C01': lambda p: sum(1 for s in p if s['a'] in ('AddOp', 'AddSub')) >= 2,
    'C02': lambda p: sum(1 for s in p if s['a'] in ('AddOp', 'AddSub')) >= 2,
    'C04': lambda p: sum(1 for s in p if s['a'] == 'AddOp' and s['link']['k'] == 'one' and s['link']['rt'] in ('JS', 'JE')) >= 1,
}
NONTRIVIAL.update({
    'C05': lambda p: any(s['a'] in ('AddSub', 'CopyCirc', 'Apply') for s in p) and any(s['a'] == 'AddOp' and s['link']['k'] == 'one' for s in p),
    'C06': lambda p: any(s['a'] == 'Apply' for s in p) and any(s['a'] in ('NewCircuit',) and s['rep'] != ['fixed', 1] for s in p),
    'C07': lambda p: sum(1 for s in p if s['a'] == 'AddOp' and s['m']['kind'] == 'DispersiveMeasure') >= 2,
    'C11': lambda p: any(s['a'] == 'Flatten' for s in p) and any(s['a'] == 'AddSub' for s in p),
    'C03': lambda p: any(s['a'] == 'Obs' for s in p[:-1]),
    'C18': lambda p: any(s['a'] == 'Obs' for s in p) and sum(1 for s in p if s['a'] == 'AddOp') >= 2,
    'C15': lambda p: sum(1 for s in p if s['a'] == 'AddOp') >= 2,
    'C08': lambda p: any(s['a'] == 'AddSub' for s in p) and sum(1 for s in p if s['a'] == 'AddOp') >= 2,
})
RULES = {
    'C01': '>= 2 additions (so at least one explicit or implicit relation is placed)',
    'C02': '>= 2 additions (listing has an order to get wrong)',
    'C04': 'at least one JOINED_START/JOINED_END relation (the last-ending operation need not be a relation leaf)',
    'C05': 'a copy (explicit, nesting or unrolling) of a structure with at least one explicit internal relation',
    'C06': 'a repetition count other than 1 is unrolled',
    'C07': '>= 2 measurements',
    'C11': 'a nested program is flattened',
    'C03': 'at least one observation before the end of the history',
    'C08': 'a nested block and >= 2 operations',
    'C18': 'a drawing of a circuit with >= 2 operations',
    'C15': '>= 2 operations',
}


def run(pid, tier):
    t0 = time.time()
    if pid == 'C15':
        os.environ['VERIF_OPENQL'] = '1'
    v = Verdict(pid, tier, t0)
    seed = common.seed()
    mc = model_check(tier)
    sources = programs_for(pid, tier, seed)
    programs = []
    for s in sources:
        for p in s['programs']:
            programs.append(p)
    traces = execute(programs)
    for s in sources:                                  # pre-recorded traces (hooks): the "program" is the label of what was run
        for lab, t in zip(s.get('labels', []), s.get('traces', [])):
            programs.append([{'a': 'Recorded', 'c': '', 'id': '', 's': '', 'm': {}, 'link': {'k': 'none'}, 'rep': ['fixed', 1], 'key': '', 'val': 0, 'what': str(lab)}])
            traces.append(t)
    bad = [i for i, t in enumerate(traces) if offgrid(t)]
    for i in bad:
        v.fail('C01.grid', {'trace': i, 'what': 'a reported time is not a multiple of 1/4 although all durations are'}, replay={'program': programs[i]})
    good = [i for i in range(len(traces)) if i not in set(bad)]
    fails, st = validate([traces[i] for i in good])
    per_clause = {}
    uninterp = list(UNINTERPRETABLE)
    outside_c07 = 0
    for f in fails:
        per_clause[f['clause']] = per_clause.get(f['clause'], 0) + 1
        ti = good[f['trace']]
        if counts_for(pid, f['clause'], traces[ti]):
            ev = traces[ti][f['l'] - 1] if f['l'] - 1 < len(traces[ti]) else {}
            if pid == 'C07' and f['clause'].startswith('C07.') and ev.get('c') in set(e['id'] for e in traces[ti] if e['ev'] == 'CopyCirc'):
                # C07 speaks about circuits built through the builder API ("created against the registry of the circuit or of a
                # sub-circuit that is later nested"); an explicit copy() of a whole structure is the harness' device for C05 --
                # its measurements keep the registry of the source circuit and are outside C07's domain
                outside_c07 += 1
                continue
            v.fail(f['clause'], {'trace': ti, 'event': f['l'], 'obj': f['obj'], 'info': f['info']},
                   signature=signature(f, ev, traces[ti], programs[ti]), replay={'program': programs[ti]})
    if outside_c07:
        v.notes.append('%d C07 clause failure(s) on explicit structure copies (outside the domain of C07) not counted' % outside_c07)
    if pid == 'C15':
        sessions_check(v)
    if pid == 'C02':
        depth_check(v, tier)
    twin_stats = {}
    if pid in ('C03', 'C18'):
        twin_stats = erasure(v, programs, traces, prefix='C18.pure' if pid == 'C18' else 'C03.erasure')
    nt = NONTRIVIAL.get(pid, lambda p: True)
    canon = set(json.dumps(p, sort_keys=True) for p in programs if nt(p))
    v.coverage.update({
        'states': mc.distinct + st['states'] + sum(s['tlc_states'] for s in sources),
        'transitions': mc.generated + st['transitions'] + sum(s['tlc_generated'] for s in sources),
        'traces_validated_against_impl': len(good),
        'evaluations': st['observations'],
        'distinct_nontrivial': len(canon),
        'rule': 'programs are action sequences generated by TLC from spec/CircuitGen.tla (exhaustive for small alphabets, -simulate '
                'for long ones), replayed on the real library; an evaluation is one recorded observation battery judged by TLC; '
                'non-trivial = ' + RULES.get(pid, 'any'),
        'samples': [compact(programs[0]), compact(programs[len(programs) // 2]), compact(programs[-1])],
        'events_by_kind': events_by_kind(traces), 'relations_observed': relations_observed(traces),
        'sources': [{k: s[k] for k in s if k not in ('programs', 'traces', 'labels')} | {'used': len(s['programs']) + len(s.get('traces', []))} for s in sources],
        'clause_failures_all_properties': per_clause, 'twin_runs': twin_stats,
        'mc': {'module': 'MCCircuit', 'distinct_states': mc.distinct, 'generated': mc.generated,
               'invariants': ['WF', 'SnapOK'], 'action_properties': ['UnrollProps', 'NTimesT', 'Independence', 'CopyFaithful']},
    })
    if uninterp:
        v.notes.append('UNINTERPRETABLE traces (TLC could not evaluate them): %s' % [good[i] for i, _ in uninterp][:10])
        sigs = set(x for k in v.known for x in k['signatures'])
        if all(f['signature'] in sigs for f in v.failures):      # nothing new to report: then this is the result (exit 2)
            raise common.MachineryError('TLC could not evaluate %d recorded trace(s); first: %s' % (len(uninterp), uninterp[0][1]))
    v.assumptions += ['the recorder (harness/tracer.py) projects the real objects faithfully',
                      'durations are multiples of 1/4 time unit (integer arithmetic in TLC)']
    v.finish()


MUTATIONS = ('AddOp', 'AddSub', 'Apply', 'Flatten', 'SetDur', 'SetRep', 'Enter', 'Leave', 'CopyCirc')


def memo_trigger(trace, upto, single_only=False):
    """Is the failing observation inside the trigger class of the known memo defect?  (a) an earlier unrolling that
    appended copies (chaining queries times before relations are handed to nested operations), or (b) an earlier
    time query followed by a mutation.  A stale value outside this class is a new violation.
    single_only: the observed circuit has no group relation at all, so only the memo of single relations is involved -- and
    that one the compact drawing clears on entry and on exit: a compact plot/draw is then no time query, it even wipes what
    earlier queries left behind."""
    queried = False
    for e in trace[:upto]:
        if e['ev'] == 'Apply' and e.get('new'):
            return True
        if e['ev'] == 'Obs':
            if single_only and e.get('what') in ('plot', 'draw'):
                queried = False
            else:
                queried = True
        elif queried and e['ev'] in MUTATIONS:
            return True
    return False


def no_group_relation(snap):
    return not any(o['rlink']['k'] == 'multi' for o in list(snap['leaves'].values()) + list(snap['comps'].values()))


def twin_trigger(trace, upto, c=None):
    """Trigger class of the value-equal-twin defect: the listing of a circuit x was read (any observation that lists x: it hands
    x's relation object to its relation-less entries) while x contained a block without a relation of its own, and afterwards x
    was copied (nested somewhere, copied, or unrolled) at a moment when that block equals x by value (same repetition term --
    unrolling resets the terms to 1, which can make them equal after the read)."""
    comps = {}                       # id -> [rep term, has own relation, home]
    read = {}                        # x -> relation-less blocks that were inside x when its listing was read

    def inside(i, x):
        seen = 0
        while i and seen < 1000:
            i = comps.get(i, [None, None, ''])[2]
            seen += 1
            if i == x:
                return True
        return False
    for k, e in enumerate(trace[:upto]):
        ev = e['ev']
        if ev == 'NewCircuit':
            comps[e['c']] = [e['rep'], e['link']['k'] != 'none', '']
        elif ev in ('AddSub', 'CopyCirc', 'Adopt'):
            for i, r in (e.get('recs') or {}).items():
                if r.get('t') == 'comp':
                    home = (e.get('tree') or {}).get(i, {}).get('home', '')
                    comps[i] = [r['rep'], (e.get('links') or {}).get(i, {'k': 'none'})['k'] != 'none', home]
            if ev == 'AddSub' and e['id'] in comps:
                comps[e['id']][2] = e['c']
                comps[e['id']][1] = e['after']['k'] != 'none'
        elif ev == 'Obs':
            x = e['c']
            if x in comps and not comps[x][1]:
                read.setdefault(x, set()).update(i for i, v in comps.items() if i != x and inside(i, x) and not v[1])
        if (ev == 'Apply') or (ev in ('AddSub', 'CopyCirc') and e.get('s')):
            x = e['c'] if ev == 'Apply' else e['s']
            if x in read and x in comps and any(i in comps and inside(i, x) and comps[i][0] == comps[x][0] for i in read[x]):
                return True
        if ev == 'Apply':
            tree = e.get('tree') or {}
            for n in (e.get('new') or []):
                if tree.get(n['id'], {}).get('t') == 'comp':
                    o = comps.get(n['origin'], [['fixed', 1], False, ''])
                    comps[n['id']] = [['fixed', 1], o[1], tree[n['id']]['home']]
            for i in tree:
                if i in comps:
                    comps[i][0] = ['fixed', 1]
    return False


def sibling_twins(trace, upto):
    """Trigger class of the value-equal SIBLING blocks defect (same root cause as twin_trigger: blocks compare by value):
    two blocks next to each other in one block, both without a relation of their own and with equal repetition terms, were
    listed through an enclosing circuit (reading the listing hands both the same relation object, after which they are equal
    keys in the copy lookup -- and so are their copies, whose relations are copies of that one object), and afterwards a
    structure containing them was copied (nested, copied or unrolled).  Returns the set of such twin blocks: the ones listed,
    plus their images under every later copy."""
    comps, hot, out = {}, set(), set()

    def inside(i, x):
        seen = 0
        while i and seen < 1000:
            if i == x:
                return True
            i = comps.get(i, [None, None, ''])[2]
            seen += 1
        return False
    for k, e in enumerate(trace[:upto]):
        ev = e['ev']
        if ev == 'NewCircuit':
            comps[e['c']] = [e['rep'], e['link']['k'] != 'none', '']
        elif ev in ('AddSub', 'CopyCirc', 'Adopt'):
            for i, r in (e.get('recs') or {}).items():
                if r.get('t') == 'comp':
                    home = (e.get('tree') or {}).get(i, {}).get('home', '')
                    comps[i] = [r['rep'], (e.get('links') or {}).get(i, {'k': 'none'})['k'] != 'none', home]
            if ev == 'AddSub' and e['id'] in comps:
                comps[e['id']][2] = e['c']
                comps[e['id']][1] = e['after']['k'] != 'none'
        if ev == 'Obs' and not e.get('final'):
            x = e['c']
            for i, v in comps.items():
                for j, w in comps.items():
                    if i != j and v[2] and v[2] == w[2] and not v[1] and not w[1] and v[0] == w[0] and inside(v[2], x):
                        hot.add(i)
        if ev == 'Apply' or (ev in ('AddSub', 'CopyCirc') and e.get('s')):
            src = e['c'] if ev == 'Apply' else e['s']
            copied = set(i for i in hot if inside(i, src))
            if copied:
                out |= copied
                for pair in (e.get('cmap') or []):
                    if pair[1] in copied:
                        hot.add(pair[0])
                        out.add(pair[0])
                for n in (e.get('new') or []):
                    if n.get('origin') in copied or n.get('from') in copied:
                        hot.add(n['id'])
                        out.add(n['id'])
        if ev == 'Apply':
            tree = e.get('tree') or {}
            for n in (e.get('new') or []):
                if tree.get(n['id'], {}).get('t') == 'comp':
                    o = comps.get(n['origin'], [['fixed', 1], False, ''])
                    comps[n['id']] = [['fixed', 1], o[1], tree[n['id']]['home']]
            for i in tree:
                if i in comps:
                    comps[i][0] = ['fixed', 1]
    return out


def dangling_group_after_flatten(trace, upto):
    """Trigger class of finding S22: flattening an unrolled circuit dissolved a block that is a member of a group relation
    ("after the latest of these") -- the member is left dangling (it is not in the flattened circuit any more) -- and afterwards
    the flattened circuit was copied (nested or copied); the copy resolves the dangling member by value, possibly to the
    enclosing circuit itself (a relation cycle: RecursionError on the next time query).  Returns the circuits concerned."""
    dangling, out = set(), set()
    for e in trace[:upto]:
        if e['ev'] == 'Flatten':
            tree = e.get('tree') or {}
            if any(L['k'] == 'multi' and any(r not in tree for r in L['refs']) for L in (e.get('links') or {}).values()):
                dangling.add(e['c'])
        elif e['ev'] in ('AddSub', 'CopyCirc') and e.get('s') in dangling:
            out.add(e['s'])
            out.add(e['id'])
            if e['ev'] == 'AddSub':
                out.add(e['c'])
    return out


def refers_to_twin(f, trace):
    """The failing object's relation (in the source, as expected, or as reported) points at one of the twin sibling blocks."""
    tw = sibling_twins(trace, f['l'])
    if not tw:
        return False
    import re
    ids = set(re.findall(r'"(o\d+)"', f['info']))
    return bool(ids & tw)


def signature(f, ev, trace, prog):
    """Signature used to match a failure against KNOWN_FINDINGS.json (None = never known)."""
    cl = f['clause']
    if f.get('memo') or cl.startswith('C03.memo'):
        so = ev.get('ev') == 'Obs' and 'snap' in ev and no_group_relation(ev['snap'])
        return 'stale-memo' if memo_trigger(trace, f['l'] - 1, single_only=so) else None
    if '.shift_moved' in cl:
        return 'coordinate-shift-moved'
    if cl.startswith('C11.library.') and cl.endswith('.relinked'):
        return 'flatten-relinked-block-reference'
    if cl == 'C15.image.subprograms_first':
        return 'openql-subprograms-first'
    if cl == 'C15.duplicate_kernel':
        return 'openql-duplicate-kernel'
    if cl == 'C04.span.nested_early':
        return 'nested-block-early-start'
    if cl == 'C05.iso.link.late_member':
        return 'group-member-copied-late'
    if cl.startswith('C07.') and ev.get('ev') == 'Obs' and any(lf['acq_c'] == -1 for lf in ev['snap']['leaves'].values()) and \
            ('<<-1,' in f['info'] or cl in ('C07.monotone', 'C07.filter.qubit', 'C07.filter.tag', 'C07.partition')):
        if twin_trigger(trace, f['l'] - 1):
            return 'twin-circuit-registry'
    if (cl == 'C00.exception' and 'RecursionError' in f['info']) or cl in ('C05.iso.link', 'C01.eq.multi'):
        if dangling_group_after_flatten(trace, f['l']):
            return 'flatten-dangling-group-member'
    if cl in ('C05.iso.link', 'C01.eq.FB', 'C01.eq.JS', 'C01.eq.JE') and refers_to_twin(f, trace):
        return 'sibling-twin-blocks-relinked'
    if cl == 'C04.followers' and ev.get('ev') == 'Obs':
        # the followed block was placed by a JOINED_END relation handed to its first operations individually: it ends later than
        # it reports, so its follower starts early -- the same finding seen from behind
        import re
        m = re.search(r'"block", "(o\d+)"', f['info'])
        blk = ev['snap']['comps'].get(m.group(1)) if m else None
        if blk and blk['rlink']['k'] == 'one' and blk['rlink']['rt'] == 'JE':
            return 'je-block-handover'
    if cl == 'C04.span' and ev.get('ev') == 'Obs':
        # ... and seen from outside: an enclosing block's duration is taken over [start, end] of the JOINED_END block, whose
        # contents really end later than it reports
        snap = ev['snap']

        def inside(k, top):
            seen = 0
            while k and seen < 1000:
                if k == top:
                    return True
                k = (snap['comps'].get(k) or {}).get('home', '')
                seen += 1
            return False
        for k, cmp_ in snap['comps'].items():
            if k != f['obj'] and inside(k, f['obj']) and cmp_['rlink']['k'] == 'one' and cmp_['rlink']['rt'] == 'JE':
                ends = [snap['leaves'][m]['end'] for m in cmp_['members'] if m in snap['leaves']]
                if ends and max(ends) > cmp_['end']:
                    return 'je-block-handover'
    if cl == 'C01.frame' and ev.get('ev') == 'Obs':
        snap = ev['snap']
        o = snap['leaves'].get(f['obj']) or snap['comps'].get(f['obj'])
        home = snap['comps'].get(o['home']) if o else None
        if home and home['rlink']['k'] == 'one' and home['rlink']['rt'] == 'JE':
            return 'je-block-handover'
    return None


def depth_check(v, tier):
    """C02 at the documented graph depth limit (spec/DepthTrace.tla): one long chain just inside the limit (thorough: also a
    mid-size one and one two short of the limit)."""
    sc = scratch()
    tin, tout = os.path.join(sc, 'depth_in.json'), os.path.join(sc, 'depth_out.json')
    ns = [4999] if tier == 'quick' else [1200, 4998, 4999]
    run_impl('drv_depth.py', [tin] + ns, timeout=3000)
    rows = json.load(open(tin))
    run_tlc('DepthTrace', 'SPECIFICATION Spec\n', env={'VERIF_IN': tin, 'VERIF_OUT': tout}, workers=1, timeout=300)
    res = json.load(open(tout))
    for f in res['fails']:
        for c in f['clauses']:
            v.fail(c, {'chain_length': rows[f['row'] - 1]['n'], 'row': rows[f['row'] - 1]}, replay={'row': rows[f['row'] - 1]})
    v.coverage['depth_limit'] = {'chains': ns, 'rows': rows}


def sessions_check(v):
    """C15, names across interpreter sessions: the same fixed circuits exported in two sessions with different hash seeds."""
    sc = scratch()
    outs = []
    for k, seed_ in enumerate(('101', '202')):
        o = os.path.join(sc, 'qlnames_%d.json' % k)
        run_impl('drv_qlnames.py', [o], extra_env={'PYTHONHASHSEED': seed_})
        outs.append(json.load(open(o)))
    rows = [{'a': a_, 'b': b_} for a_, b_ in zip(*outs)]
    tin, tout = os.path.join(sc, 'names_in.json'), os.path.join(sc, 'names_out.json')
    json.dump(rows, open(tin, 'w'))
    run_tlc('NamesTrace', 'SPECIFICATION Spec\n', env={'VERIF_IN': tin, 'VERIF_OUT': tout}, workers=1, timeout=300)
    res = json.load(open(tout))
    for f in res['fails']:
        v.fail('C15.names.sessions', {'circuit': f['circuit'], 'session_a': f['a'], 'session_b': f['b']}, replay={'row': rows[f['row'] - 1]})
    v.coverage['names_across_sessions'] = {'circuits': len(rows), 'disagreeing': len(res['fails'])}


def events_by_kind(traces):
    out = {}
    for t in traces:
        for e in t:
            k = e['ev'] + (':' + e['what'] if e['ev'] == 'Obs' else '')
            out[k] = out.get(k, 0) + 1
    return out


def relations_observed(traces):
    """How often each relation shape was actually judged (vacuity guard: a count of 0 means the clause for it never fired)."""
    out = {'none': 0, 'FB': 0, 'JS': 0, 'JE': 0, 'multi': 0, 'zero_duration': 0, 'blocks': 0, 'blocks_with_count': 0, 'measurements': 0}
    for t in traces:
        for e in t:
            if e['ev'] == 'Obs' and 'snap' in e:
                for o in e['snap']['leaves'].values():
                    L = o['rlink']
                    out[L['rt'] if L['k'] == 'one' else L['k']] = out.get(L['rt'] if L['k'] == 'one' else L['k'], 0) + 1
                    out['zero_duration'] += o['dur_v'] == 0
                    out['measurements'] += o['acq_c'] != -2
                for c in e['snap']['comps'].values():
                    out['blocks'] += 1
                    out['blocks_with_count'] += c['nrep'] != 1
    return out


def finals(trace):
    return [{'c': e['c'], 'snap': e['snap']} for e in trace if e['ev'] == 'Obs' and e.get('final')]


def erasure(v, programs, traces, prefix='C03.erasure'):
    """C03 twin runs: every history with an intermediate observation is executed again with those observations erased
    (separate process); TLC (ErasureTrace) compares the final batteries."""
    def aborted(t):
        return any(e['ev'] == 'Error' and e['a'].startswith('Obs:') for e in t)     # judged by C18 / C08
    idx = [i for i, p in enumerate(programs) if any(s['a'] == 'Obs' for s in p) and not aborted(traces[i])]
    erased = [[s for s in programs[i] if s['a'] != 'Obs'] for i in idx]
    tb = execute(erased)
    rows = []
    for k, i in enumerate(idx):
        rows.append({'a': finals(traces[i]), 'b': finals(tb[k])})
    sc = scratch()
    tin, tout = os.path.join(sc, 'erasure_in.json'), os.path.join(sc, 'erasure_out.json')
    json.dump(rows, open(tin, 'w'))
    r = run_tlc('ErasureTrace', 'SPECIFICATION Spec\n', env={'VERIF_IN': tin, 'VERIF_OUT': tout}, workers=1, timeout=1200)
    res = json.load(open(tout))
    if res['n'] != len(rows):
        raise common.MachineryError('erasure validation consumed %s of %d rows' % (res['n'], len(rows)))
    for f in res['fails']:
        i = idx[f['row'] - 1]
        ta, tbk = traces[i], tb[f['row'] - 1]
        for cl, obj in f['clauses']:
            sig = None
            fa = {x['c']: x['snap'] for x in finals(ta)}
            fb = {x['c']: x['snap'] for x in finals(tbk)}

            def stale(snaps):
                for sn in snaps.values():
                    o = sn['leaves'].get(obj) or sn['comps'].get(obj)
                    if o and (o['start'] != o.get('start_c', o['start']) or o.get('dur_c', o['dur_v']) != o['dur_v']):
                        return True
                return False
            if cl in ('C03.erasure.time', 'C03.erasure.block') and (stale(fa) or stale(fb)) and \
                    (memo_trigger(ta, len(ta), single_only=all(no_group_relation(sn) for sn in list(fa.values()) + list(fb.values())))
                     or memo_trigger(tbk, len(tbk), single_only=all(no_group_relation(sn) for sn in list(fa.values()) + list(fb.values())))):
                sig = 'stale-memo'
            elif cl in ('C03.erasure.index', 'C03.erasure.indices', 'C03.erasure.export') and twin_trigger(ta, len(ta)) and \
                    any(lf['acq_c'] == -1 for sn in list(fa.values()) + list(fb.values()) for lf in sn['leaves'].values()):
                sig = 'twin-circuit-registry'          # the twin defect loses the registry: index -1 (a stale index is something else)
            elif cl in ('C03.erasure.time', 'C03.erasure.block', 'C03.erasure.operation') and sibling_twins(ta, len(ta)):
                # the run with the listing read differs from the run without it: known if every ROOT of the difference (an
                # operation whose own start differs although everything its relation refers to agrees) is a follower of a
                # twin sibling block -- the rest of the differences are consequences further down the relation chains
                tw = sibling_twins(ta, len(ta))
                roots, explained = 0, 0
                for cid, sa in fa.items():
                    sb = fb.get(cid)
                    if not sb:
                        continue
                    def rec(sn, x):
                        return sn['leaves'].get(x) or sn['comps'].get(x)
                    def differs(x):
                        a, b = rec(sa, x), rec(sb, x)
                        return bool(a and b and (a['start'] != b['start'] or a['end'] != b['end']))
                    for lid, a in sa['leaves'].items():
                        if not differs(lid):
                            continue
                        L = a['rlink']
                        refs = [L['ref']] if L['k'] == 'one' else list(L['refs'])
                        Lb = (rec(sb, lid) or a)['rlink']
                        refs_b = [Lb['ref']] if Lb['k'] == 'one' else list(Lb['refs'])
                        if any(differs(r) for r in refs) and refs == refs_b:
                            continue                  # consequence
                        roots += 1
                        explained += bool(set(refs + refs_b) & tw)
                if roots and roots == explained:
                    sig = 'sibling-twin-blocks-relinked'
            v.fail(cl.replace('C03.erasure', prefix), {'trace': i, 'obj': obj}, signature=sig, replay={'program': programs[i], 'erased': erased[f['row'] - 1]})
    return {'twin_histories': len(rows), 'tlc_states': r.distinct, 'rejected_pairs': len(res['fails'])}


def compact(prog):
    out = []
    for s_ in prog:
        m = s_.get('m') or {}
        L = s_.get('link') or {}
        bits = [s_['a'], s_.get('c', ''), s_.get('id', ''), s_.get('s', '')]
        if m.get('kind'):
            bits += [m['kind'], str(m['qs']), str(m['chans']), str(m['dur']), m.get('tag', '')]
        if L.get('k') == 'one':
            bits += ['%s->%s' % (L['rt'], L['ref'])]
        if s_['a'] == 'NewCircuit':
            bits += ['rep=%s' % s_['rep']]
        if s_.get('key'):
            bits += [s_['key'], str(s_['val'])]
        if s_.get('what'):
            bits += [str(s_['what'])]
        out.append(' '.join(b for b in bits if b != ''))
    return out


def replay(pid, path):
    d = json.load(open(path))
    for f in d['failures'][:2]:
        prog = f['replay']['program']
        tr = execute([prog])[0]
        fails, _ = validate([tr], nchunks=1)
        print('program:')
        for line in compact(prog):
            print('   ', line)
        for x in fails:
            print('  FAILED', x['clause'], x['obj'], x['info'][:300], 'event', x['l'])
            e = tr[x['l'] - 1]
            if e['ev'] == 'Obs':
                for i in e['snap']['order']:
                    o = e['snap']['leaves'][i]
                    print('      leaf', i, o['kind'], o['qs'], 'home', o['home'], 'start', o['start'], 'fresh', o.get('start_c'), 'dur', o['dur_v'], 'end', o['end'],
                          o['rlink']['k'], o['rlink']['ref'] or o['rlink']['refs'], o['rlink']['rt'])
                for i, o in e['snap']['comps'].items():
                    print('      block', i, 'home', o['home'], 'start', o['start'], o.get('start_c'), 'dur', o['dur_v'], o.get('dur_c'), 'rep', o['rep'],
                          o['rlink']['k'], o['rlink']['ref'] or o['rlink']['refs'], o['rlink']['rt'], o['members'])
            break
