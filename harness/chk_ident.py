"""C19: identifier relations. TLC model-checks Ident.tla exhaustively over a finite universe and validates
a table recorded from the real code (one implementation test per specification state)."""
import json
import os
import time

import common
from common import run_tlc, run_impl, Verdict, scratch


def run(pid, tier):
    t0 = time.time()
    v = Verdict(pid, tier, t0)
    nq, ne, ml = (3, 4, 4) if tier == 'quick' else (4, 6, 7)
    consts = 'CONSTANTS NQ = %d NE = %d MaxLen = %d\n' % (nq, ne, ml)
    mc = run_tlc('MCIdent', 'SPECIFICATION Spec\n' + consts + 'INVARIANT ChanInv\nINVARIANT EdgeInv\nINVARIANT SeqInv\n', workers=8)
    tin = os.path.join(scratch(), 'ident_in.json')
    tout = os.path.join(scratch(), 'ident_out.json')
    run_impl('drv_ident.py', [nq, ne, ml, tin, common.seed()])
    rows = json.load(open(tin))
    tr = run_tlc('IdentTrace', 'SPECIFICATION Spec\n' + consts, env={'VERIF_IN': tin, 'VERIF_OUT': tout}, workers=1)
    if not os.path.exists(tout):
        raise common.MachineryError('IdentTrace produced no verdict file\n' + common.tail(tr.out, 30))
    res = json.load(open(tout))
    if res['n'] != len(rows):
        raise common.MachineryError('row count mismatch')
    if not res['covered']:
        v.fail('C19.coverage', {'what': 'recorded table does not cover the specification universe'}, replay={'rows': len(rows)})
    for f in res['fails']:
        r = rows[f['row'] - 1]
        for c in f['clauses']:
            v.fail(c, {'row': r}, signature=None, replay={'row': r})
    kinds = {}
    for r in rows:
        kinds[r['t']] = kinds.get(r['t'], 0) + 1
    v.coverage.update({
        'states': mc.distinct + tr.distinct, 'transitions': mc.generated + tr.generated,
        'traces_validated_against_impl': len(rows) - len(res['fails']),
        'evaluations': len(rows),
        'distinct_nontrivial': sum(1 for r in rows if r['t'] in ('chan', 'edge') and (r.get('a') != r.get('b') or r.get('e') != r.get('f'))),
        'rule': 'every ordered pair of channel identifiers over %d qubits x 4 channel kinds, every ordered pair of proper edges over %d qubits, '
                'all qubit-name pairs, all sequences of length <= %d over 3 elements, all sequences of length <= 4 over 5 pairwise unequal integers of which two pairs share a hash value '
                '(and all triples over 4 channel identifiers with such indices), 200 random identifier sequences; '
                'non-trivial = pair of two different identifiers' % (nq, ne, ml),
        'samples': [rows[1], rows[len(rows) // 2], rows[-1]],
        'rows_by_kind': kinds, 'exhaustive': True,
        'mc': {'module': 'MCIdent', 'distinct_states': mc.distinct, 'invariants': ['ChanInv', 'EdgeInv', 'SeqInv', 'NonTransitive (ASSUME)']},
    })
    v.assumptions += ['TLC 1.8 / CommunityModules Json; the table driver harness/drv_ident.py reports ==, !=, in, hash faithfully']
    v.finish()


def replay(pid, path):
    d = json.load(open(path))
    print(json.dumps(d, indent=1)[:3000])
