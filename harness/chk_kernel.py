"""C12 (kernels tile the index range) and C13 (kernels agree with the experiment circuit)."""
import json
import os
import time

import common
from common import run_tlc, run_impl, Verdict, scratch


def table_check(v, module, consts, tin, rows, prefix):
    tout = tin.replace('.json', '_out.json')
    tr = run_tlc(module, 'SPECIFICATION Spec\n' + consts, env={'VERIF_IN': tin, 'VERIF_OUT': tout}, workers=1, timeout=1500)
    if not os.path.exists(tout):
        raise common.MachineryError(module + ' produced no verdict file\n' + common.tail(tr.out, 30))
    res = json.load(open(tout))
    if res['n'] != len(rows):
        raise common.MachineryError('row count mismatch')
    if not res.get('covered', True):
        v.fail(prefix + '.coverage', {'what': 'recorded table does not cover the specification universe'})
    for f in res['fails']:
        r = rows[f['row'] - 1]
        for c in f['clauses']:
            v.fail(c, {'input': json.dumps({k: r[k] for k in r if k not in ('base', 'sequences', 'qubits', 'blocks')})[:500]}, replay={'row': r})
    return tr, res


def run_c12(pid, tier):
    t0 = time.time()
    v = Verdict(pid, tier, t0)
    mr, ml, reps = (3, 3, 2) if tier == 'quick' else (5, 5, 3)
    mc = run_tlc('MCIndexKernel', 'SPECIFICATION Spec\nCONSTANTS MaxRound = %d MaxReps = %d\nINVARIANT Inv\n' % (mr + 1 if tier == 'quick' else mr, reps), workers=8, timeout=1500)
    tin = os.path.join(scratch(), 'kernel_in.json')
    run_impl('drv_kernel.py', [mr, ml, reps, tin, common.seed()])
    common.split_error_rows(v, 'C12', tin)
    rows = json.load(open(tin))
    tr, res = table_check(v, 'IndexKernelTrace', 'CONSTANTS MaxRound = %d MaxLen = %d MaxReps = %d\n' % (mr, ml, reps), tin, rows, 'C12')
    v.coverage.update({
        'states': mc.distinct + tr.distinct, 'transitions': mc.generated + tr.generated,
        'traces_validated_against_impl': len(rows) - len(res['fails']), 'evaluations': len(rows),
        'distinct_nontrivial': len(set(json.dumps([r['rounds'], r['H'], r['K'], r['reps']]) for r in rows if len(r['rounds']) >= 2)),
        'rule': 'every list of <= %d distinct round counts from 0..%d in any order x heralded on/off x calibration points on/off x repetitions 1..%d (exhaustive), plus 40 random '
                'descriptions with round counts <= 40; for each the real kernels are queried through every getter and compared by TLC with IndexKernel.tla; '
                'non-trivial = at least two blocks' % (ml, mr, reps),
        'samples': [{k: rows[j][k] for k in ('rounds', 'H', 'K', 'reps', 'cycle', 'blocks')} for j in (0, len(rows) // 2)],
        'exhaustive': True,
        'mc': {'module': 'MCIndexKernel', 'distinct_states': mc.distinct, 'invariant': 'Inv (Tiling, CategoriesOK, CalOK, TranslateOK, EstimateOK, DatasetOK with the calibration flag)'},
    })
    v.assumptions += ['TLC/SANY, CommunityModules Json; the table driver harness/drv_kernel.py reports the getters faithfully']
    v.coverage['extension_general_calibration_kernel'] = extension_general(tier)
    v.coverage['extension_inductive_tiling'] = extension_inductive(tin)
    v.finish()


def extension_general(tier):
    """Beyond the listed properties (advisory, never a verdict): the stand-alone GeneralCalibrationIndexKernel against
    spec/CalKernel.tla -- model check of the design (categories partition the range) and a table of the real getters."""
    ms, mrp = (2, 3) if tier == 'quick' else (6, 6)
    mc = run_tlc('MCCalKernel', 'SPECIFICATION Spec\nCONSTANTS MaxStart = %d MaxReps = %d\nINVARIANT Inv\n' % (ms, mrp), workers=2, timeout=600)
    tin = os.path.join(scratch(), 'calk_in.json')
    tout = tin.replace('.json', '_out.json')
    run_impl('drv_calkernel.py', [ms, mrp, tin])
    rows = json.load(open(tin))
    tr = run_tlc('CalKernelTrace', 'SPECIFICATION Spec\n', env={'VERIF_IN': tin, 'VERIF_OUT': tout}, workers=1, timeout=600)
    res = json.load(open(tout))
    per = {}
    for f in res['fails']:
        for c in f['clauses']:
            per.setdefault(c, []).append({k: rows[f['row'] - 1][k] for k in ('s0', 'H', 'F', 'n', 'cal', 'her')})
    return {'status': 'advisory: no listed property speaks about this class', 'mc_states': mc.distinct, 'rows': len(rows),
            'rows_agreeing': len(rows) - len(res['fails']),
            'deviations': {c: {'count': len(xs), 'first': xs[0]} for c, xs in per.items()}}


def extension_inductive(tin=None):
    """Beyond the bounded model check (advisory clause E12.inductive, never a verdict): spec/KernelInductive.tla builds the cycle kernel
    after kernel and repetition after repetition; Apalache discharges an inductive invariant, so contiguity / disjointness / categories /
    translates hold for every round count, every number of blocks and every number of repetitions, not only up to MaxRound."""
    import shutil
    import subprocess
    exe = shutil.which('apalache-mc')
    if exe is None:
        return {'status': 'advisory: not run (apalache-mc not on PATH)'}
    out = os.path.join(scratch(), 'apalache')
    res = {}
    for name, args in (('init_implies_inv', ['--init=Init', '--inv=IndInv', '--length=0']),
                       ('inv_is_inductive', ['--init=IndInit', '--inv=IndInv', '--length=1']),
                       ('reachable_prefix_len6', ['--init=Init', '--inv=IndInv', '--length=6'])):
        try:
            r = subprocess.run([exe, 'check'] + args + ['--out-dir=' + out, 'KernelInductive.tla'], cwd=common.SPEC,
                               capture_output=True, text=True, timeout=300)
            res[name] = 'NoError' if (r.returncode == 0 and 'The outcome is: NoError' in r.stdout) else 'FAILED (exit %d)' % r.returncode
        except Exception as e:                                                              # advisory only: never a machinery failure of C12
            res[name] = 'not run: %r' % (e,)
    ok = all(x == 'NoError' for x in res.values())
    trace = {'status': 'not run'}
    if tin is not None:
        # binding: the recorded real kernels, read as behaviours of the same action system (spec/KernelInductiveTrace.tla)
        try:
            import re
            tev = tin.replace('.json', '_events.json')
            run_impl('drv_kernel_events.py', [tin, tev, common.seed()])
            evs = json.load(open(tev))
            tr = run_tlc('KernelInductiveTrace', 'SPECIFICATION TSpec\nINVARIANT IndInv\nCHECK_DEADLOCK FALSE\n', env={'VERIF_IN': tev}, workers=1, timeout=900)
            acc = set(int(x) for x in re.findall(r'"ACCEPT", (\d+)', tr.out))
            rej = [j for j in range(1, len(evs) + 1) if j not in acc]
            trace = {'clause': 'E12.inductive.trace', 'rows': len(evs), 'accepted': len(acc), 'distinct_states': tr.distinct,
                     'invariant_held': 'No error has been found' in tr.out,
                     'largest_round_count': max([max(e['rounds']) for e in evs] or [0]),
                     'rejected': [{k: evs[j - 1][k] for k in ('rounds', 'H', 'K', 'reps')} for j in rej[:5]],
                     'rule': 'every recorded experiment kernel of the C12 table plus 6 descriptions with round counts up to 2000 and up to 12 repetitions: '
                             'one Append per real kernel (real start/stop/heralded/stabilizer/final indices logged), Close (real cycle length, calibration start), '
                             'one NextRep per further repetition (real offset logged); witnesses chosen by TLC; IndInv checked in every state'}
        except Exception as e:                                                              # advisory only
            trace = {'status': 'not run: %r' % (e,)}
    return {'status': 'advisory: unbounded design-level argument for C12 (E12.inductive)', 'tool': 'apalache-mc 0.58 (SMT, integers unbounded)',
            'module': 'KernelInductive', 'trace_binding': trace, 'invariant': 'IndInv = TypeOK /\\ Tiling /\\ Categories /\\ Calibration /\\ Translates', 'steps': res, 'proved': ok,
            'scope': 'every round count in Nat, every number of blocks, both heralded settings, calibration on/off, every number of repetitions'}


def run_c13(pid, tier):
    t0 = time.time()
    v = Verdict(pid, tier, t0)
    mr, ml, dmax, nrand = (3, 3, 3, 10) if tier == 'quick' else (4, 4, 4, 60)
    mc = run_tlc('MCIndexKernel', 'SPECIFICATION Spec\nCONSTANTS MaxRound = %d MaxReps = 1\nINVARIANT Inv\n' % (mr + 1), workers=8, timeout=1500)
    tin = os.path.join(scratch(), 'kc_in.json')
    run_impl('drv_kernel_circuit.py', [mr, ml, dmax, tin, common.seed(), nrand], timeout=6000)
    common.split_error_rows(v, 'C13', tin)
    rows = json.load(open(tin))
    tr, res = table_check(v, 'KernelCircuitTrace', '', tin, rows, 'C13')
    v.coverage.update({
        'states': mc.distinct + tr.distinct, 'transitions': mc.generated + tr.generated,
        'traces_validated_against_impl': len(rows) - len(res['fails']), 'evaluations': len(rows),
        'distinct_nontrivial': len(set(json.dumps([r['rounds'], r['d']]) for r in rows if len(r['rounds']) >= 2 or 0 in r['rounds'])),
        'rule': 'every list of <= %d distinct round counts from 0..%d in any order x code distance 2..%d (one random computational initial state each), plus %d random '
                'lists with counts <= 8: the real multi-round circuit and the real experiment kernel (repetitions = 1) are both recorded and compared by TLC with '
                'IndexKernel.tla per ancilla; non-trivial = >= 2 blocks or a 0-round block' % (ml, mr, dmax, nrand),
        'samples': [{k: rows[j][k] for k in ('rounds', 'd', 'state', 'cycle')} | {'ancilla': [q for q in rows[j]['qubits'] if q['anc']][:1]} for j in (0, len(rows) // 2)],
        'mc': {'module': 'MCIndexKernel', 'distinct_states': mc.distinct},
    })
    v.assumptions += ['heralded initialisation and qutrit calibration points are what construct_repetition_code_multi_round_circuit always builds (H = 1)']
    v.finish()


def run(pid, tier):
    if pid == 'C12':
        return run_c12(pid, tier)
    return run_c13(pid, tier)


def replay(pid, path):
    d = json.load(open(path))
    for f in d['failures'][:5]:
        print(f['clause'], json.dumps(f['detail'])[:600])
