"""C09 (repetition-code circuits run the protocol) and C10 (no channel double-booked): library constructors."""
import json
import os
import time

import common
from common import run_tlc, run_impl, Verdict, scratch
from chk_kernel import table_check


def run_c09(pid, tier):
    t0 = time.time()
    v = Verdict(pid, tier, t0)
    quick = tier == 'quick'
    mc = run_tlc('MCRepCode', 'SPECIFICATION Spec\nCONSTANTS D = %d MaxCycles = %d\nINVARIANT Done\nINVARIANT Progress\n' % ((3, 4) if quick else (4, 6)),
                 workers=16, timeout=2500)
    tin = os.path.join(scratch(), 'repcode_in.json')
    dmax, cmax, nlay = (3, 4, 10) if quick else (5, 8, 200)
    run_impl('drv_repcode.py', [tin, dmax, cmax, nlay, common.seed(), 1], timeout=10000)
    common.split_error_rows(v, 'C09', tin)
    rows = [r for r in json.load(open(tin)) if r['ctor'] == 'main']
    json.dump(rows, open(tin, 'w'))
    tr, res = table_check(v, 'RepCodeTrace', '', tin, rows, pid)
    inputs = set(json.dumps([r['desc'], r['data'], r['anc'], r['cycles']]) for r in rows)
    v.coverage.update({
        'states': mc.distinct + tr.distinct, 'transitions': mc.generated + tr.generated,
        'traces_validated_against_impl': len(rows) - len(res['fails']), 'evaluations': len(rows),
        'distinct_nontrivial': len(set(json.dumps([r['desc'], r['data'], r['anc'], r['cycles']]) for r in rows if r['cycles'] >= 1 and any(r['data']))),
        'rule': 'chains of distance 2..%d (with and without refocusing) x all / sampled computational data states x default and requested ancilla states x 0..%d cycles, '
                'plus %d contiguous sub-chains (both directions) of the three Surface-17 repetition layouts; each as constructed, unrolled and flattened; the exported '
                'circuit is executed by Stim without noise (5 shots, two seeds) and the record is compared by TLC with the protocol machine; non-trivial = >= 1 cycle and a '
                'non-zero data state' % (dmax, cmax, nlay),
        'samples': [{k: rows[j][k] for k in ('desc', 'data', 'anc', 'cycles', 'variant', 'mrec', 'ndet')} for j in (0, len(rows) // 2)],
        'inputs': len(inputs),
        'mc': {'module': 'MCRepCode', 'distinct_states': mc.distinct, 'invariants': ['Done (block sizes, closed forms, m_c = m_(c-2))', 'Progress']},
    })
    v.assumptions += ['Stim\'s noiseless sampler executes the exported circuit (the property is phrased in those terms)',
                      'for computational-basis inputs the protocol is classical; detector determinism is established by comparing 5 shots from two seeds and by detector_error_model()']
    v.finish()


def run_c10(pid, tier):
    import concurrent.futures as cf
    import re
    t0 = time.time()
    v = Verdict(pid, tier, t0)
    quick = tier == 'quick'
    dmax, cmax, grid, nsamp = (3, 4, '2,4,8,12', 2) if quick else (4, 5, '2,4,8,12,20', 3)    # thorough: 625 settings x about 60 structures (about 40 min on 16 cores)
    outdir = os.path.join(scratch(), 'occ')
    os.makedirs(outdir, exist_ok=True)
    run_impl('drv_occupancy.py', [outdir, dmax, cmax, grid, common.seed(), nsamp], timeout=10000)
    index = json.load(open(os.path.join(outdir, 'index.json')))

    def one(it):
        tout = it['path'].replace('.json', '_out.json')
        r = run_tlc('Occupancy', 'SPECIFICATION Spec\nCONSTANT MaxCfg = %d\n' % (40 if (quick and it['name'].endswith('-long')) else 0), env={'VERIF_IN': it['path'], 'VERIF_OUT': tout}, workers=1,
                    name='Occ_' + os.path.basename(it['path'])[:-5], timeout=6000, java_opts=['-Xmx3g'])
        if not os.path.exists(tout):
            raise common.MachineryError('Occupancy wrote no verdict for %s\n%s' % (it['name'], common.tail(r.out, 30)))
        return it, json.load(open(tout)), r
    states = trans = configs = 0
    suspects, drift = [], []
    with cf.ThreadPoolExecutor(max_workers=14) as ex:
        for it, res, r in ex.map(one, index):
            states += r.distinct
            trans += r.generated
            configs += res['configs']
            if not res['topo_ok']:
                raise common.MachineryError('recorded order of %s is not topological' % it['name'])
            for f in res['sample_fails']:
                drift.append({'structure': it['name'], 'what': 'specification fold and real code disagree on a time', 'node': f[1]})
            for f in res['fails']:
                m = dict(re.findall(r'(RO|MW|FL|RST) \|-> (\d+)', f[3]))
                if it['name'].endswith('-asreported'):
                    # recorded from the public API (duration asked first, then the listing): nothing to re-derive
                    v.fail(f[0], {'circuit': it['name'], 'what': 'the schedule the freshly constructed circuit reports (duration read first, then the operations) double-books a channel',
                                  'operations': [f[1], f[2]]}, replay={'structure': it['name']})
                    continue
                suspects.append({'name': it['name'], 'clause': f[0], 'a': f[1], 'b': f[2], 'cfg': {k_: int(x) for k_, x in m.items()}})
    if drift:
        # the fold is not what the code reports for these structures (model drift, not a verdict): decide them on the code's own
        # times, recorded for every configuration of the grid and judged by the same TLC predicates
        names = sorted(set(d_['structure'] for d_ in drift))
        v.notes.append('MODEL-DRIFT: specification fold differs from reported times for %s; decided on recorded times' % names)
        req = [{'name': it['name'], 'path': it['path']} for it in index if it['name'] in names]
        pin = os.path.join(outdir, 'realsweep_in.json')
        json.dump(req, open(pin, 'w'))
        run_impl('drv_occupancy.py', ['realsweep', pin, dmax, cmax, common.seed()], timeout=20000)
        redo = [{'name': r_['name'], 'path': r_['path'].replace('.json', '_rec.json'), 'n_ops': 0} for r_ in req]
        with cf.ThreadPoolExecutor(max_workers=14) as ex:
            for it, res, r in ex.map(one, redo):
                states += r.distinct
                trans += r.generated
                for f in res['fails']:
                    m = dict(re.findall(r'(RO|MW|FL|RST) \|-> (\d+)', f[3]))
                    suspects.append({'name': it['name'], 'clause': f[0], 'a': f[1], 'b': f[2], 'cfg': {k_: int(x) for k_, x in m.items()}})
    if suspects:
        pin, pout = os.path.join(outdir, 'confirm_in.json'), os.path.join(outdir, 'confirm_out.json')
        json.dump(suspects[:200], open(pin, 'w'))
        run_impl('drv_occupancy.py', ['confirm', pin, pout, dmax, cmax, common.seed()], timeout=6000)
        for s_ in json.load(open(pout)):
            if s_['confirmed']:
                v.fail(s_['clause'], {'circuit': s_['name'], 'config_quarter_units': s_['cfg'], 'operations': s_.get('real')}, replay=s_)
            else:
                v.notes.append('MODEL-DRIFT: overlap predicted by the fold not reproduced on the code: %s' % json.dumps(s_)[:300])
    v.coverage.update({
        'states': states, 'transitions': trans, 'traces_validated_against_impl': len(index),
        'evaluations': configs, 'distinct_nontrivial': len([i for i in index if i['n_ops'] >= 10]),
        'rule': 'structures: main constructor d=2..%d x 0..%d cycles (fewer cycles for larger distances), simplified constructor (>=1 cycle, d<=3), calibration circuits (qubit/qutrit, 1 and 3 qubits), each as constructed and '
                'unrolled; for each structure TLC sweeps the whole grid {%s}^4 (quarter units) of READOUT x MICROWAVE x FLUX x RESET durations, solving the relation equations itself; the '
                'fold is compared with the real code under %d sampled configurations per structure; evaluations = configurations evaluated; non-trivial = structure with >= 10 operations' % (dmax, cmax, grid, nsamp),
        'samples': [{'structure': index[0]['name'], 'operations': index[0]['n_ops']}, {'structure': index[-1]['name'], 'operations': index[-1]['n_ops']}],
        'structures': [i['name'] for i in index], 'suspects_from_sweep': len(suspects),
    })
    v.assumptions += ['all positive durations are quantified in the property; the sweep is over a finite grid chosen to realise every ordering of the four durations and 2*microwave (a bound, not a proof)',
                      'durations are multiples of 1/2 time unit so that the decoupling wait (readout - microwave)/2 stays on the integer grid']
    v.finish()


def run(pid, tier):
    if pid == 'C09':
        return run_c09(pid, tier)
    return run_c10(pid, tier)


def replay(pid, path):
    d = json.load(open(path))
    for f in d['failures'][:5]:
        print(f['clause'], json.dumps(f['detail'])[:600])
