"""C09 (repetition-code circuits run the protocol) and C10 (no channel double-booked): library constructors."""
import json
import os
import time

import common
from common import run_tlc, run_impl, Verdict, scratch
from chk_kernel import table_check


def run_c09(pid, tier):
    t0 = time.time()
    v = Verdict(pid, tier, t0)
    quick = tier == 'quick'
    mc = run_tlc('MCRepCode', 'SPECIFICATION Spec\nCONSTANTS D = %d MaxCycles = %d\nINVARIANT Done\nINVARIANT Progress\n' % ((3, 4) if quick else (4, 6)),
                 workers=16, timeout=2500)
    tin = os.path.join(scratch(), 'repcode_in.json')
    dmax, cmax, nlay = (3, 4, 10) if quick else (5, 8, 200)
    run_impl('drv_repcode.py', [tin, dmax, cmax, nlay, common.seed(), 1], timeout=10000)
    rows = [r for r in json.load(open(tin)) if r['ctor'] == 'main']
    json.dump(rows, open(tin, 'w'))
    tr, res = table_check(v, 'RepCodeTrace', '', tin, rows, pid)
    inputs = set(json.dumps([r['desc'], r['data'], r['anc'], r['cycles']]) for r in rows)
    v.coverage.update({
        'states': mc.distinct + tr.distinct, 'transitions': mc.generated + tr.generated,
        'traces_validated_against_impl': len(rows) - len(res['fails']), 'evaluations': len(rows),
        'distinct_nontrivial': len(set(json.dumps([r['desc'], r['data'], r['anc'], r['cycles']]) for r in rows if r['cycles'] >= 1 and any(r['data']))),
        'rule': 'chains of distance 2..%d (with and without refocusing) x all / sampled computational data states x default and requested ancilla states x 0..%d cycles, '
                'plus %d contiguous sub-chains (both directions) of the three Surface-17 repetition layouts; each as constructed, unrolled and flattened; the exported '
                'circuit is executed by Stim without noise (5 shots, two seeds) and the record is compared by TLC with the protocol machine; non-trivial = >= 1 cycle and a '
                'non-zero data state' % (dmax, cmax, nlay),
        'samples': [{k: rows[j][k] for k in ('desc', 'data', 'anc', 'cycles', 'variant', 'mrec', 'ndet')} for j in (0, len(rows) // 2)],
        'inputs': len(inputs),
        'mc': {'module': 'MCRepCode', 'distinct_states': mc.distinct, 'invariants': ['Done (block sizes, closed forms, m_c = m_(c-2))', 'Progress']},
    })
    v.assumptions += ['Stim\'s noiseless sampler executes the exported circuit (the property is phrased in those terms)',
                      'for computational-basis inputs the protocol is classical; detector determinism is established by comparing 5 shots from two seeds and by detector_error_model()']
    v.finish()


def run(pid, tier):
    if pid == 'C09':
        return run_c09(pid, tier)
    return run_c10(pid, tier)


def replay(pid, path):
    d = json.load(open(path))
    for f in d['failures'][:5]:
        print(f['clause'], json.dumps(f['detail'])[:600])
