"""C14: noise dressing only adds noise, with the configured strengths."""
import json
import os
import time

import common
from common import run_tlc, run_impl, Verdict, scratch
from chk_kernel import table_check


def run(pid, tier):
    t0 = time.time()
    v = Verdict(pid, tier, t0)
    quick = tier == 'quick'
    mc = run_tlc('MCNoise', 'SPECIFICATION Spec\nCONSTANT MaxLen = %d\nINVARIANT Inv\n' % (4 if quick else 5), workers=16, timeout=2500)
    tin = os.path.join(scratch(), 'noise_in.json')
    run_impl('drv_noise.py', [tin, 60 if quick else 1500, common.seed()], timeout=6000)
    common.split_error_rows(v, 'C14', tin)
    rows = json.load(open(tin))
    tr, res = table_check(v, 'NoiseTrace', '', tin, rows, pid)
    v.coverage.update({
        'states': mc.distinct + tr.distinct, 'transitions': mc.generated + tr.generated,
        'traces_validated_against_impl': len(rows) - len(res['fails']), 'evaluations': len(rows),
        'distinct_nontrivial': len(set(json.dumps([r['input'], r['settings']['name']]) for r in rows if any(x['name'] == 'TICK' for x in r['input']) and any(x['name'] == 'M' for x in r['input']))),
        'rule': 'circuits: exporter outputs of the repetition-code constructor (d=2,3; 0..4 cycles) and random instruction sequences over {R,X,H,CZ,M,TICK,DETECTOR,SQRT_Y,I} on <=5 qubits, '
                'each dressed by the real apply_noise under 3 settings tables (distinct per-qubit T1/T2/assignment errors, non-default durations, total / partial / foreign index maps), plus sessions in which ONE NoiseSettings object is reused over three calls with the original, a rotated and again the original index map; '
                'non-trivial = input with a TICK and a measurement',
        'samples': [{'src': rows[0]['src'], 'settings': rows[0]['settings'], 'output_head': rows[0]['output'][:8]}],
        'mc': {'module': 'MCNoise', 'distinct_states': mc.distinct, 'invariant': 'Inv (Strip(Dress(c)) = c with targets split; idle count)'},
    })
    v.assumptions += ['the closed form 1-exp(-t/T) is evaluated by the harness in float64 for the (duration class, T1, T2) the specification selects (TLA+ has no reals); '
                      'the observed probabilities are matched against it with relative tolerance 1e-9 and range-checked',
                      'stim.Circuit.flattened() defines the flattened input; arguments are read through the stim API (exact doubles)']
    v.finish()


def replay(pid, path):
    d = json.load(open(path))
    for f in d['failures'][:5]:
        print(f['clause'], json.dumps(f['detail'])[:600])
