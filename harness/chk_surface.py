"""C16 (simultaneous gates accepted iff collision-free; parking) and C17 (layouts executable)."""
import json
import os
import time

import common
from common import run_tlc, run_impl, Verdict, scratch
from chk_kernel import table_check

MC_INV = 'INVARIANT DownwardClosed\nINVARIANT ParkOnlyIdle\nINVARIANT ParkLocal\nINVARIANT Equivalent\n'


def run(pid, tier):
    t0 = time.time()
    v = Verdict(pid, tier, t0)
    quick = tier == 'quick'
    mc = run_tlc('MCSurface17', 'SPECIFICATION Spec\nCONSTANT K = %d\n%s' % (3 if quick else 4, MC_INV), workers=16, timeout=2500)
    tin = os.path.join(scratch(), pid + '_in.json')
    if pid == 'C16':
        kex, ns, ngen = (2, 400, 4) if quick else (4, 300, 12)
        run_impl('drv_surface.py', ['c16', tin, kex, ns, common.seed(), ngen], timeout=6000)
        cover = kex
    else:
        nr, small = (150, 2) if quick else (4000, 4)
        run_impl('drv_surface.py', ['c17', tin, nr, common.seed(), small], timeout=6000)
        # the same table once more in a fresh interpreter that touches the layouts in the opposite order
        tin2 = tin.replace('.json', '_rev.json')
        run_impl('drv_surface.py', ['c17', tin2, max(20, nr // 5), common.seed(), small], timeout=6000, extra_env={'VERIF_LAYOUT_ORDER': 'reversed'})
        json.dump(json.load(open(tin)) + json.load(open(tin2)), open(tin, 'w'))
        cover = 0
    common.split_error_rows(v, pid, tin)
    rows = json.load(open(tin))
    for r in rows:
        if r['t'] == 'derived_error':
            v.fail('C17.derive.exception', {'layout': r['name'], 'involved': r['involved'], 'exc': r['exc']}, replay={'row': r})
    rows_ok = [r for r in rows if r['t'] != 'derived_error']
    json.dump(rows_ok, open(tin, 'w'))
    tr, res = table_check(v, 'Surface17Trace', 'CONSTANT CoverK = %d\n' % cover, tin, rows_ok, pid)
    kinds = {}
    for r in rows:
        kinds[r['t']] = kinds.get(r['t'], 0) + 1
    nontriv = [r for r in rows_ok if (r['t'] == 'subset' and len(r['edges']) >= 2) or (r['t'] == 'derived' and any(L['gates'] for L in r['layers'])) or r['t'] in ('generator', 'layout')]

    def short(r):
        return {k: (r[k] if k not in ('base', 'sequences') else '...') for k in r}
    v.coverage.update({
        'states': mc.distinct + tr.distinct, 'transitions': mc.generated + tr.generated,
        'traces_validated_against_impl': len(rows_ok) - len(res['fails']), 'evaluations': len(rows),
        'distinct_nontrivial': len(set(json.dumps(short(r), sort_keys=True) for r in nontriv)),
        'rule': ('C16: device tables; every subset of <= %d of the 24 edges (exhaustive) + sampled larger subsets + reversed-orientation pairs, each evaluated by the real '
                 'get_mutually_allowed (two orders) and get_requires_parking (all 17 qubits); generator runs; non-trivial = >= 2 gates' % cover) if pid == 'C16' else
                ('C17: the three shipped repetition layouts as behaviours; derived descriptions for every contiguous sub-chain, every subset of size <= small bound, '
                 'random subsets/orderings; non-trivial = a derived description that keeps at least one gate'),
        'samples': [short(rows_ok[1]), short(rows_ok[len(rows_ok) // 2])],
        'rows_by_kind': kinds, 'exhaustive': pid == 'C16',
        'mc': {'module': 'MCSurface17', 'distinct_states': mc.distinct, 'invariants': ['DeviceOK (ASSUME)', 'DownwardClosed', 'ParkOnlyIdle', 'ParkLocal', 'Equivalent']},
    })
    v.assumptions += ['the specification owns its copy of the Surface-17 tables (qubits, edges, frequency groups, parity groups); the code\'s tables are compared with it']
    v.finish()


def replay(pid, path):
    d = json.load(open(path))
    for f in d['failures'][:5]:
        print(f['clause'], json.dumps(f['detail'])[:600])
