"""Shared machinery: scratch dirs, TLC runner, evidence, known findings, verdict printing.

Exit codes of every check: 0 property held on everything explored (KNOWN-FINDING lines allowed),
1 violation (prints `VIOLATION property=<id> replay=<path>`), 2 machinery failure (never a verdict).
"""
import atexit
import json
import os
import re
import shutil
import subprocess
import sys
import tempfile
import time

VERIF = os.path.dirname(os.path.dirname(os.path.abspath(__file__)))
SPEC = os.path.join(VERIF, 'spec')
REPO = os.environ.get('VERIF_REPO', '/repo')
PY = '/venv/bin/python'
GUARD = 'QCOCIRCUITS_VERIF'
TLA_CP = '/opt/veriftools/tla/tla2tools.jar:/opt/veriftools/tla/CommunityModules-deps.jar'

_scratch = None


class MachineryError(Exception):
    pass


def scratch():
    """One scratch directory per process, removed at exit (nothing registered depends on /tmp content)."""
    global _scratch
    if _scratch is None:
        _scratch = tempfile.mkdtemp(prefix='verif-')
        if not os.environ.get('VERIF_KEEP'):
            atexit.register(lambda: shutil.rmtree(_scratch, ignore_errors=True))
    return _scratch


def seed():
    try:
        return int(os.environ.get('VERIF_SEED', '1'))
    except ValueError:
        return 1


def tier(argv_tier=None):
    t = argv_tier or os.environ.get('VERIF_TIER') or 'quick'
    return t if t in ('quick', 'thorough') else 'quick'


def impl_env(repo=None):
    """Environment in which the real library is imported from the working tree of `repo`."""
    env = dict(os.environ)
    repo = repo or REPO
    env['PYTHONPATH'] = os.path.join(repo, 'src') + os.pathsep + os.path.join(VERIF, 'harness')
    env['PYTHONHASHSEED'] = '0'
    env[GUARD] = '1'
    env['MPLBACKEND'] = 'Agg'
    env['VERIF_REPO'] = repo
    env['TQDM_DISABLE'] = '1'
    return env


def run_impl(script, args, out_path=None, stdin=None, timeout=3000, repo=None, extra_env=None):
    """Run a driver script (under harness/) against the real code; returns stdout."""
    cmd = [PY, os.path.join(VERIF, 'harness', script)] + [str(a) for a in args]
    env = impl_env(repo)
    env.update(extra_env or {})
    p = subprocess.run(cmd, env=env, cwd=repo or REPO, input=stdin, capture_output=True,
                       text=True, timeout=timeout)
    if p.returncode != 0:
        raise MachineryError('driver %s failed (%d):\n%s\n%s' % (script, p.returncode, p.stdout[-2000:], p.stderr[-4000:]))
    return p.stdout


_STATS = re.compile(r'(\d+) states generated, (\d+) distinct states found')
_SIMSTATS = re.compile(r'The number of states generated: (\d+)')


class TLCResult:
    def __init__(self, out, rc, wall):
        self.out = out
        self.rc = rc
        self.wall = wall
        m = _STATS.findall(out)
        self.generated = int(m[-1][0]) if m else 0
        self.distinct = int(m[-1][1]) if m else 0
        if not m:
            s = _SIMSTATS.findall(out)
            if s:
                self.generated = int(s[-1])
                self.distinct = int(s[-1])
        self.invariant_violated = re.findall(r'Invariant (\S+) is violated', out)
        self.property_violated = re.findall(r'(?:Action|Temporal) property (\S+) is violated', out) + \
            (['<temporal>'] if 'Temporal properties were violated' in out else [])
        self.errors = [l for l in out.splitlines() if l.startswith('Error:')]
        self.finished = 'Model checking completed' in out or 'Finished in' in out or 'Finished computing' in out
        self.coverage = {}
        for m in re.finditer(r'<(\w+) line \d+, col \d+ to line \d+, col \d+ of module (\w+)>(?:: (\d+):(\d+))', out):
            self.coverage[m.group(1)] = (int(m.group(3)), int(m.group(4)))

    @property
    def ok(self):
        return self.rc == 0 and not self.errors and not self.invariant_violated and not self.property_violated


def run_tlc(module, cfg_text, env=None, workers=None, simulate=None, depth=None, coverage=False,
            timeout=3000, extra=None, name=None, java_opts=None, allow_fail=False, deadlock=False, modules=None):
    """Run TLC on spec/<module>.tla with the given cfg text inside the scratch dir. Returns TLCResult."""
    sc = scratch()
    name = name or module
    wd = os.path.join(sc, 'tlc-' + name + '-' + str(int(time.time() * 1000) % 10 ** 9))
    os.makedirs(wd)
    for f in os.listdir(SPEC):
        if f.endswith('.tla'):
            os.symlink(os.path.join(SPEC, f), os.path.join(wd, f))
    for mname, mtext in (modules or {}).items():
        with open(os.path.join(wd, mname + '.tla'), 'w') as fh:
            fh.write(mtext)
    cfg = os.path.join(wd, name + '.cfg')
    with open(cfg, 'w') as fh:
        fh.write(cfg_text)
    cmd = ['java', '-XX:+UseParallelGC', '-Xss64m', '-Xmx12g']
    cmd += (java_opts or [])
    cmd += ['-cp', TLA_CP, 'tlc2.TLC', '-metadir', os.path.join(wd, 'meta'), '-noGenerateSpecTE',
            '-config', cfg, '-workers', str(workers or 1)]
    if not deadlock:
        cmd += ['-deadlock']
    if simulate:
        cmd += ['-simulate', simulate]
    if depth:
        cmd += ['-depth', str(depth)]
    if coverage:
        cmd += ['-coverage', '1']
    cmd += (extra or [])
    cmd += [module + '.tla']
    e = dict(os.environ)
    e.update(env or {})
    t0 = time.time()
    try:
        p = subprocess.run(cmd, cwd=wd, env=e, capture_output=True, text=True, timeout=timeout)
    except subprocess.TimeoutExpired as ex:
        raise MachineryError('TLC timeout on %s after %ss' % (module, timeout))
    res = TLCResult(p.stdout + p.stderr, p.returncode, time.time() - t0)
    res.workdir = wd
    if not allow_fail and not res.ok:
        raise MachineryError('TLC failed on %s (rc=%d):\n%s' % (module, p.returncode, tail(res.out, 60)))
    return res


def tail(text, n):
    """The part of TLC's output worth showing: the error messages (TLC prints long state dumps after them) and the last lines."""
    L = [l[:300] for l in text.splitlines() if not l.startswith('<<"PROGRAM"')]
    idx = [i for i, l in enumerate(L) if l.startswith('Error:') or 'Attempted to' in l or 'not in its domain' in l or '***Parse Error***' in l or 'Multiply-defined' in l]
    head = []
    for i in idx[:4]:
        head += L[max(0, i - 1):i + 7] + ['   ...']
    return '\n'.join(head + L[-n:])


def tla_value(v):
    """Python value -> TLA+ literal (ints, bools, strings, lists -> tuples, dicts -> records)."""
    if isinstance(v, bool):
        return 'TRUE' if v else 'FALSE'
    if isinstance(v, int):
        return str(v)
    if isinstance(v, str):
        return '"' + v.replace('\\', '\\\\').replace('"', '\\"') + '"'
    if isinstance(v, (list, tuple)):
        return '<<' + ', '.join(tla_value(x) for x in v) + '>>'
    if isinstance(v, (set, frozenset)):
        return '{' + ', '.join(tla_value(x) for x in sorted(v, key=repr)) + '}'
    if isinstance(v, dict):
        return '[' + ', '.join('%s |-> %s' % (k, tla_value(x)) for k, x in v.items()) + ']'
    raise TypeError(v)


# ---------------------------------------------------------------- known findings

def load_known():
    p = os.path.join(VERIF, 'KNOWN_FINDINGS.json')
    if not os.path.exists(p):
        return {'findings': [], 'fixed': []}
    return json.load(open(p))


class Verdict:
    """Collects failures for one property run; applies the known-findings file; prints and exits."""

    def __init__(self, pid, tier_, t0=None):
        self.pid = pid
        self.tier = tier_
        self.t0 = t0 or time.time()
        self.failures = []      # dicts: clause, where, detail, signature, replay(dict)
        self.known_hits = {}
        self.notes = []
        self.coverage = {}
        self.assumptions = []
        self.known = [k for k in load_known()['findings'] if k['property'] == pid]

    def fail(self, clause, detail, signature=None, replay=None):
        self.failures.append({'clause': clause, 'detail': detail, 'signature': signature, 'replay': replay})

    def finish(self, level='model_checking'):
        new, hits = [], {}
        for f in self.failures:
            k = next((k for k in self.known if f['signature'] is not None and f['signature'] in k['signatures']), None)
            if k is None:
                new.append(f)
            else:
                hits.setdefault(k['id'], []).append(f)
        ev = {
            'property_id': self.pid, 'tier': self.tier, 'seed': seed(), 'level': level,
            'coverage': self.coverage, 'assumptions': self.assumptions,
            'wall_s': round(time.time() - self.t0, 2), 'violations': len(new),
        }
        ev['coverage']['known_findings'] = {k: len(v) for k, v in hits.items()}
        ev['coverage']['notes'] = self.notes
        os.makedirs(os.path.join(VERIF, 'evidence'), exist_ok=True)
        with open(os.path.join(VERIF, 'evidence', self.pid + '.json'), 'w') as fh:
            json.dump(ev, fh, indent=1, sort_keys=True, default=str)
        for k in self.known:
            if k['id'] in hits:
                print('KNOWN-FINDING: property=%s %s [%s, %d occurrence(s)]' % (self.pid, k['what'], k['id'], len(hits[k['id']])))
        if new:
            os.makedirs(os.path.join(VERIF, 'replays'), exist_ok=True)
            first = new[0]
            path = os.path.join(VERIF, 'replays', '%s-%s.json' % (self.pid, re.sub(r'[^A-Za-z0-9_.]', '_', first['clause'])))
            with open(path, 'w') as fh:
                json.dump({'property': self.pid, 'failures': new[:20], 'n_failures': len(new)}, fh, indent=1, default=str)
            for f in new[:5]:
                print('  failed clause %s: %s' % (f['clause'], json.dumps(f['detail'], default=str)[:600]))
            print('VIOLATION property=%s replay=%s' % (self.pid, path))
            sys.exit(1)
        print('OK property=%s tier=%s wall=%.1fs' % (self.pid, self.tier, time.time() - self.t0))
        sys.exit(0)


def machinery_guard(fn):
    """Run a check's main; any unexpected exception is a machinery failure (exit 2), never a verdict."""
    try:
        fn()
    except SystemExit:
        raise
    except MachineryError as e:
        print('MACHINERY-FAILURE: %s' % e)
        sys.exit(2)
    except Exception:
        import traceback
        traceback.print_exc()
        print('MACHINERY-FAILURE: unexpected exception')
        sys.exit(2)


def split_error_rows(v, prefix, path):
    """Error rows written by a table driver (harness/guard.py) are reported as '<property>.exception' and taken out of the
    table before TLC reads it."""
    rows = json.load(open(path))
    errs = [r for r in rows if isinstance(r, dict) and r.get('t') == 'error' and 'exc' in r]
    if errs:
        json.dump([r for r in rows if r not in errs], open(path, 'w'))
        for r in errs[:50]:
            v.fail(prefix + '.exception', {'input': r.get('input'), 'raised': r['exc'], 'where': r.get('where')}, replay={'row': r})
    return len(errs)
