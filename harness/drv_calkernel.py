"""Extension driver (advisory, prefix E12): the stand-alone GeneralCalibrationIndexKernel, every getter, as a table."""
import json
import sys
import warnings

warnings.filterwarnings('ignore')
from qce_circuit.structure.acquisition_indexing.kernel_calibration import GeneralCalibrationIndexKernel  # noqa: E402
from qce_circuit.structure.acquisition_indexing.intrf_index_strategy import FixedIndexStrategy  # noqa: E402
from qce_circuit.structure.acquisition_indexing.intrf_stabilizer_index_kernel import StateKey  # noqa: E402
from qce_circuit.connectivity.intrf_channel_identifier import QubitIDObj  # noqa: E402


def main(maxstart, maxreps, out):
    rows = []
    states = [StateKey.STATE_0, StateKey.STATE_1, StateKey.STATE_2]
    for s0 in range(maxstart + 1):
        for H in (0, 1):
            for F in (0, 1):
                for n in range(1, maxreps + 1):
                    k = GeneralCalibrationIndexKernel(index_offset_strategy=FixedIndexStrategy(index=s0), heralded_initialization=bool(H), f_state=bool(F), repetitions=n)
                    rows.append({'s0': s0, 'H': H, 'F': F, 'n': n, 'start': int(k.start_index), 'stop': int(k.stop_index), 'cycle': int(k.cycle_length),
                                 'states': len(k.contained_states), 'heralded': bool(k.heralded_calibration),
                                 'all': [int(x) for x in k.contains(QubitIDObj('D1'))],
                                 'her': [[int(x) for x in k.get_heralded_state_measurement_index(s)] for s in states],
                                 'cal': [[int(x) for x in k.get_calibration_state_measurement_index(s)] for s in states]})
    json.dump(rows, open(out, 'w'))
    print(len(rows))


if __name__ == '__main__':
    main(int(sys.argv[1]), int(sys.argv[2]), sys.argv[3])
