"""C02 driver: the listing at the documented graph depth limit.  A chain of `n` back-to-back operations on one qubit (graph
depth n) plus a few operations on a second qubit; what the listing reports is summarised in one row."""
import json
import sys
import warnings

warnings.filterwarnings('ignore')
sys.setrecursionlimit(100000)
from qce_circuit.language.declarative_circuit import DeclarativeCircuit  # noqa: E402
from qce_circuit.structure.circuit_operations import Rx90, Ry90, Wait  # noqa: E402
from qce_circuit.structure.registry_duration import FixedDurationStrategy  # noqa: E402


def one(n):
    c = DeclarativeCircuit(nr_qubits=2)
    added = []
    for _ in range(3):
        added.append(c.add(Ry90(1)))
    for i in range(n):
        added.append(c.add(Rx90(0) if i % 2 == 0 else Wait(0, duration_strategy=FixedDurationStrategy(duration=float(1 + i % 7)))))
    first = c.operations
    second = c.operations
    pos = {id(o): k for k, o in enumerate(first)}
    chain = [o for o in added if o.qubit_index == 0]
    return {'n': n, 'added': len(added), 'listed': len(first), 'distinct': len(set(id(o) for o in first)),
            'all_added_listed': all(id(o) in pos for o in added), 'only_added_listed': set(pos) <= set(id(o) for o in added),
            'chain_in_order': all(id(a) in pos and id(b) in pos and pos[id(a)] < pos[id(b)] for a, b in zip(chain, chain[1:])),
            'stable': [id(o) for o in first] == [id(o) for o in second],
            'attrs_kept': all(type(o).__name__ in ('Rx90', 'Ry90', 'Wait') for o in first)}


if __name__ == '__main__':
    json.dump([one(int(x)) for x in sys.argv[2:]], open(sys.argv[1], 'w'))
