"""Traces of code that was not written for verification: (tests) the repository's test files, each run unchanged under the
recording hooks in its own process; (library) the library constructors over an input grid."""
import glob
import json
import os
import subprocess
import sys
import warnings

warnings.filterwarnings('ignore')


def run_tests(out):
    repo = os.environ.get('VERIF_REPO', '/repo')
    files = sorted(glob.glob(os.path.join(repo, 'tests', '**', 'test_*.py'), recursive=True))
    procs = []
    for k, f in enumerate(files):
        po = '%s.part%d' % (out, k)
        env = dict(os.environ)
        env['VERIF_PLUGIN_OUT'] = po
        p = subprocess.Popen([sys.executable, '-m', 'pytest', '-q', '-p', 'no:cacheprovider', '-p', 'verif_plugin', f], cwd=repo, env=env,
                             stdout=subprocess.DEVNULL, stderr=subprocess.DEVNULL)
        procs.append((f, po, p))
    traces, meta = [], []
    for f, po, p in procs:
        p.wait()
        if os.path.exists(po):
            d = json.load(open(po))
            os.unlink(po)
            if d['events']:
                traces.append(d['events'])
                meta.append({'file': os.path.relpath(f, repo), 'events': len(d['events']), 'pytest_exit': d['exitstatus']})
        else:
            meta.append({'file': os.path.relpath(f, repo), 'events': 0, 'pytest_exit': p.returncode, 'error': 'no trace written'})
    json.dump({'traces': traces, 'meta': meta}, open(out, 'w'))
    print(len(traces))


def run_library(out, dmax, cmax):
    import hooks
    from qce_circuit.library.repetition_code.circuit_constructors import (
        construct_repetition_code_circuit, construct_repetition_code_circuit_simplified, construct_repetition_code_multi_round_circuit)
    from qce_circuit.library.repetition_code.circuit_components import RepetitionCodeDescription
    from qce_circuit.language.intrf_declarative_circuit import InitialStateContainer, InitialStateEnum
    S = hooks.Session()
    S.install()
    traces, meta = [], []
    E = {0: InitialStateEnum.ZERO, 1: InitialStateEnum.ONE}

    def record(name, fn):
        S.take(final=False)
        try:
            fn()
        except Exception as e:
            S.events.append({'ev': 'Error', 'step': len(S.events), 'a': 'library', 'exc': e.__class__.__name__, 'msg': str(e)[:200], 'tb': ''})
        traces.append(S.take(final=False))
        meta.append({'input': name, 'events': len(traces[-1])})
    for d in range(2, dmax + 1):
        desc = RepetitionCodeDescription.from_chain(length=2 * d - 1)
        init = InitialStateContainer.from_ordered_list([E[(i + d) % 2] for i in range(d)])
        for cycles in range(0, cmax + 1):
            for ctor, f in (('main', construct_repetition_code_circuit), ('simplified', construct_repetition_code_circuit_simplified)):
                if ctor == 'simplified' and cycles == 0:
                    continue                       # its cycle block has repetition count 0: outside "counts >= 1"

                def build(f=f, cycles=cycles, desc=desc, init=init):
                    c = f(qec_cycles=cycles, description=desc, initial_state=init)
                    a = S.observe(c, 'constructed')
                    c2 = c.apply_modifiers()
                    b = S.observe(c2, 'unrolled', compare=a)
                    c3 = c2.flatten()
                    S.observe(c3, 'flattened', compare=b)
                record('%s d=%d cycles=%d' % (ctor, d, cycles), lambda build=build: (build(), S.take(final=False) if False else None))
        if d <= 3:
            for rounds in ([0, 1], [2, 0, 1], [3], [1, 2]):
                def build_multi(rounds=rounds, desc=desc, init=init):
                    c = construct_repetition_code_multi_round_circuit(qec_cycles=list(rounds), description=desc, initial_state=init)
                    if max(rounds) > 2:
                        return                          # (observed once at the end only; the phases below are for <= 2 cycles per round)
                    a = S.observe(c, 'constructed')
                    c2 = c.apply_modifiers()
                    b_ = S.observe(c2, 'unrolled', compare=a)
                    c3 = c2.flatten()
                    S.observe(c3, 'flattened', compare=b_)
                record('multi-round d=%d rounds=%s' % (d, rounds), build_multi)
    S.uninstall()
    json.dump({'traces': traces, 'meta': meta}, open(out, 'w'))
    print(len(traces))


if __name__ == '__main__':
    if sys.argv[1] == 'tests':
        run_tests(sys.argv[2])
    else:
        run_library(sys.argv[2], int(sys.argv[3]), int(sys.argv[4]))
