"""C19 driver: evaluate the real identifier relations on the specification's universes; emit a table."""
import json
import sys
import itertools

from qce_circuit.structure.intrf_circuit_operation import ChannelIdentifier, QubitChannel
from qce_circuit.connectivity.intrf_channel_identifier import EdgeIDObj, QubitIDObj
from qce_circuit.utilities.array_manipulation import unique_in_order


def main(nq, ne, maxlen, out):
    rows = []
    kinds = ['READOUT', 'MICROWAVE', 'FLUX', 'ALL']
    qv = list(range(nq)) + [300]
    chans = [(q, k) for q in qv for k in kinds]

    def mk(c):
        # the index is created afresh (as a value read from a file or computed would be), never a shared literal
        return ChannelIdentifier(_id=int(str(c[0])), _channel=QubitChannel[c[1]])
    for a in chans:
        for b in chans:
            A, B = mk(a), mk(b)
            rows.append({'t': 'chan', 'a': list(a), 'b': list(b), 'eq': bool(A == B), 'eq_rev': bool(B == A),
                         'ne': bool(A != B), 'in_list': bool(A in [mk((nq + 7, 'ALL')), B])})
    # qubit names of which some are substrings of others (D1 / D10 / D11, Z1 / Z10): identity is the whole name
    # ... and names that differ only in leading zeros of an embedded number (D1 / D01): still different qubits
    names = (['D1', 'Z1', 'D10', 'D01', 'Z10', 'Z01', 'D11', 'D2', 'X1', 'X10'] + ['Q%d' % i for i in range(ne)])[:ne]
    edges = [(x, y) for x in range(ne) for y in range(ne) if x != y]

    def mke(e):
        return EdgeIDObj(QubitIDObj(names[e[0]]), QubitIDObj(names[e[1]]))
    for e in edges:
        for f in edges:
            E, F = mke(e), mke(f)
            rows.append({'t': 'edge', 'e': list(e), 'f': list(f), 'eq': bool(E == F), 'hash_eq': hash(E) == hash(F),
                         'in_set': bool(E in {F}), 'probe': list(range(ne)),
                         'has': [bool(E.contains(QubitIDObj(names[x]))) for x in range(ne)]})
    # degenerate edges (both ends the same qubit), separately constructed: equal iff it is the same qubit
    for x in range(ne):
        for y in range(ne):
            A, B = EdgeIDObj(QubitIDObj(names[x]), QubitIDObj(names[x])), EdgeIDObj(QubitIDObj(str(names[y])), QubitIDObj(str(names[y])))
            rows.append({'t': 'selfedge', 'x': x, 'y': y, 'eq': bool(A == B), 'hash_eq': hash(A) == hash(B), 'in_set': bool(A in {B})})
    for x in range(ne):
        for y in range(ne):
            X, Y = QubitIDObj(names[x]), QubitIDObj(str(names[y]))
            rows.append({'t': 'qubit', 'x': x, 'y': y, 'eq': bool(X == Y), 'hash_eq': hash(X) == hash(Y), 'in_set': bool(X in {Y})})
    for n in range(maxlen + 1):
        for s in itertools.product('abc', repeat=n):
            rows.append({'t': 'seq', 's': list(s), 'out': list(unique_in_order(list(s)))})
    # sequences over pairwise UNEQUAL elements of which some share a hash value (hash(-1) == hash(-2), hash(2**61 - 1) == hash(0) in
    # CPython): de-duplication is by equality, so none of them may be dropped. Rows carry alphabet positions as strings (TLC integers are 32 bit; a TLC set cannot mix sequences of strings and of integers).
    alphabet = [-1, -2, 0, 2 ** 61 - 1, 1]
    for n in range(min(maxlen, 4) + 1):
        for s in itertools.product(range(len(alphabet)), repeat=n):
            o = unique_in_order([alphabet[j] for j in s])
            rows.append({'t': 'seq', 's': ['i%d' % j for j in s], 'out': ['i%d' % alphabet.index(x) for x in o]})
    # the same through channel identifiers whose qubit indices share a hash value
    for s in itertools.product([(-1, 'FLUX'), (-2, 'FLUX'), (0, 'FLUX'), (-1, 'MICROWAVE')], repeat=3):
        try:
            o = unique_in_order([mk(c) for c in s])
            rows.append({'t': 'chanseq', 's': [list(c) for c in s], 'out': [[c.id, c.channel.name] for c in o]})
        except TypeError:
            rows.append({'t': 'chanseq', 's': [list(c) for c in s], 'out': [["unhashable", ""]]})
    # de-duplication of exactly-equal channel identifiers (distinct objects, equal values)
    import random
    rnd = random.Random(int(sys.argv[5]) if len(sys.argv) > 5 else 1)
    exact = [(q, k) for q in qv for k in kinds[:3]]      # without ALL: equality is then an equivalence
    for _ in range(200):
        s = [rnd.choice(exact) for _ in range(rnd.randint(0, 8))]
        try:
            o = unique_in_order([mk(c) for c in s])
            rows.append({'t': 'chanseq', 's': [list(c) for c in s], 'out': [[c.id, c.channel.name] for c in o]})
        except TypeError:
            # unhashable identifiers: de-duplication of identifier lists is then not available at all
            rows.append({'t': 'chanseq', 's': [list(c) for c in s], 'out': [["unhashable", ""]]})
    for _ in range(200):
        s = [rnd.choice(edges) for _ in range(rnd.randint(0, 7))]
        o = unique_in_order([mke(e) for e in s])
        rows.append({'t': 'edgeseq', 's': [list(e) for e in s],
                     'out': [[names.index(e.qubit_id0.id), names.index(e.qubit_id1.id)] for e in o]})
    json.dump(rows, open(out, 'w'))
    print(len(rows))


if __name__ == '__main__':
    main(int(sys.argv[1]), int(sys.argv[2]), int(sys.argv[3]), sys.argv[4])
