"""C12 driver: query the real index kernels for every experiment description of the enumeration; emit a table."""
import itertools
import json
import sys
import warnings

warnings.filterwarnings('ignore')
import numpy as np  # noqa: E402
from guard import guarded  # noqa: E402
from qce_circuit.structure.acquisition_indexing.kernel_repetition_code import RepetitionExperimentKernel, RepetitionIndexKernel  # noqa: E402
from qce_circuit.structure.acquisition_indexing.kernel_calibration import QutritCalibrationIndexKernel  # noqa: E402
from qce_circuit.structure.acquisition_indexing.intrf_stabilizer_index_kernel import StateKey  # noqa: E402
from qce_circuit.connectivity.intrf_channel_identifier import QubitIDObj  # noqa: E402


def L(x):
    a = np.asarray(x)
    return [int(v) for v in a.reshape(-1)] if a.ndim <= 1 else [[int(v) for v in row] for row in a]


def one(rounds, H, reps, ndata=2, nanc=1, K=1):
    data = [QubitIDObj('D%d' % (i + 1)) for i in range(ndata)]
    anc = [QubitIDObj('Z%d' % (i + 1)) for i in range(nanc)]
    outsider = QubitIDObj('X9')
    k = RepetitionExperimentKernel(rounds=list(rounds), heralded_initialization=bool(H), qutrit_calibration_points=bool(K),
                                   involved_data_qubit_ids=data, involved_ancilla_qubit_ids=anc, experiment_repetitions=reps)
    row = {'rounds': list(rounds), 'H': H, 'K': K, 'reps': reps, 'blocks': [], 'err': ''}
    ks = k.indexing_kernels
    cals = [x for x in ks if isinstance(x, QutritCalibrationIndexKernel)]
    row['ncal'] = len(cals)
    row['nother'] = len([x for x in ks if not isinstance(x, (QutritCalibrationIndexKernel, RepetitionIndexKernel))])
    for kern in [x for x in ks if isinstance(x, RepetitionIndexKernel)]:
        row['blocks'].append({
            'start': int(kern.start_index), 'stop': int(kern.stop_index), 'length': int(kern.kernel_length),
            'her_d': L(kern.get_heralded_measurement_index(data[0])), 'her_a': L(kern.get_heralded_measurement_index(anc[0])),
            'stab_d': L(kern.get_ordered_stabilizer_measurement_indices(data[-1])), 'stab_a': L(kern.get_ordered_stabilizer_measurement_indices(anc[-1])),
            'fin_d': L(kern.get_final_measurement_index(data[-1])), 'fin_a': L(kern.get_final_measurement_index(anc[0])),
            'all_d': L(kern.contains(data[0])), 'all_a': L(kern.contains(anc[0])), 'all_x': L(kern.contains(outsider))})
    q = anc[0]
    row['cal'] = {}
    row['cal_last'] = len(cals) == 1 and ks[-1] is cals[0]
    if len(cals) == 1 and ks[-1] is cals[0]:
        cal = cals[0]
        row['cal'] = {'start': int(cal.start_index), 'stop': int(cal.stop_index), 'length': int(cal.kernel_length),
                      'her': [L(cal.get_heralded_state_0_measurement_index(q)), L(cal.get_heralded_state_1_measurement_index(q)), L(cal.get_heralded_state_2_measurement_index(q))],
                      'proj': [L(cal.get_state_0_measurement_index(q)), L(cal.get_state_1_measurement_index(q)), L(cal.get_state_2_measurement_index(q))],
                      'all': L(cal.contains(data[0])), 'all_x': L(cal.contains(outsider))}
    row['cycle'] = int(k.kernel_cycle_length)
    row['exp_start'] = int(k.start_index)
    row['exp_stop'] = int(k.stop_index)
    states = [StateKey.STATE_0, StateKey.STATE_1, StateKey.STATE_2]
    row['sl_cal_proj'] = [L(k.get_projected_calibration_acquisition_indices(q, s)) for s in states]
    row['sl_cal_her'] = [L(k.get_heralded_calibration_acquisition_indices(q, s)) for s in states]
    row['sl_her'] = [L(k.get_heralded_cycle_acquisition_indices(q, r)) for r in rounds]
    row['sl_stab_a'] = [L(k.get_stabilizer_and_projected_cycle_acquisition_indices(anc[0], r)) for r in rounds]
    row['sl_stab_d'] = [L(k.get_stabilizer_and_projected_cycle_acquisition_indices(data[0], r)) for r in rounds]
    row['sl_proj_a'] = [L(k.get_projected_cycle_acquisition_indices(anc[0], r)) for r in rounds]
    row['sl_proj_d'] = [L(k.get_projected_cycle_acquisition_indices(data[0], r)) for r in rounds]
    try:
        row['estimate'] = int(RepetitionExperimentKernel.estimate_experiment_repetitions(
            rounds=list(rounds), heralded_initialization=bool(H), qutrit_calibration_points=bool(K), dataset_size=reps * row['cycle']))
    except AssertionError as e:
        row['estimate'] = -1
        row['err'] = 'estimate rejects reps*cycle'
    try:
        RepetitionExperimentKernel.estimate_experiment_repetitions(
            rounds=list(rounds), heralded_initialization=bool(H), qutrit_calibration_points=bool(K), dataset_size=reps * row['cycle'] + 1)
        row['estimate_off_rejected'] = False
    except AssertionError:
        row['estimate_off_rejected'] = True
    return row


def main(maxround, maxlen, maxreps, out, extra_seed):
    rows = []
    for n in range(1, maxlen + 1):
        for rounds in itertools.permutations(range(maxround + 1), n):
            for H in (0, 1):
                for K in (0, 1):
                    for reps in range(1, maxreps + 1):
                        rows.append(guarded(one, rounds, H, reps, K=K, _label='rounds=%s H=%d K=%d reps=%d' % (list(rounds), H, K, reps)))
    # beyond TLC's universe: long lists / large counts (still judged by the same trace specification)
    import random
    rnd = random.Random(extra_seed)
    for _ in range(40):
        n = rnd.randint(1, 8)
        rounds = rnd.sample(range(0, 41), n)
        rows.append(guarded(one, rounds, rnd.randint(0, 1), rnd.randint(1, 6), ndata=rnd.randint(1, 4), nanc=rnd.randint(1, 3), K=rnd.randint(0, 1), _label='rounds=%s' % rounds))
    json.dump(rows, open(out, 'w'))
    print(len(rows))


if __name__ == '__main__':
    main(int(sys.argv[1]), int(sys.argv[2]), int(sys.argv[3]), sys.argv[4], int(sys.argv[5]))
