"""C13 driver: build the real multi-round experiment circuit and the real experiment kernel for the same description;
record, per qubit, the circuit's tagged acquisition indices and every kernel getter."""
import itertools
import json
import random
import sys
import warnings

warnings.filterwarnings('ignore')
import numpy as np  # noqa: E402
from guard import guarded  # noqa: E402
from qce_circuit.library.repetition_code.circuit_constructors import construct_repetition_code_multi_round_circuit  # noqa: E402
from qce_circuit.library.repetition_code.circuit_components import RepetitionCodeDescription  # noqa: E402
from qce_circuit.language.intrf_declarative_circuit import InitialStateContainer, InitialStateEnum  # noqa: E402
from qce_circuit.structure.acquisition_indexing.kernel_repetition_code import RepetitionExperimentKernel  # noqa: E402
from qce_circuit.structure.acquisition_indexing.intrf_stabilizer_index_kernel import StateKey  # noqa: E402
from qce_circuit.structure.intrf_acquisition_operation import AcquisitionTag  # noqa: E402


def L(x):
    return sorted(int(v) for v in np.asarray(x).reshape(-1))


ORDER = [0]


def one(rounds, d, state_bits):
    desc = RepetitionCodeDescription.from_chain(length=2 * d - 1)
    init = InitialStateContainer.from_ordered_list([InitialStateEnum.ONE if b else InitialStateEnum.ZERO for b in state_bits])
    # the kernel and the circuit are made from the same description object, in either order (alternating from row to row):
    # neither may depend on the other having been made first
    ORDER[0] += 1
    kernel_first = ORDER[0] % 2 == 0

    def mk_kernel():
        return RepetitionExperimentKernel(rounds=list(rounds), heralded_initialization=True, qutrit_calibration_points=True,
                                          involved_data_qubit_ids=desc.data_qubit_ids, involved_ancilla_qubit_ids=desc.ancilla_qubit_ids,
                                          experiment_repetitions=1)
    if kernel_first:
        kern = mk_kernel()
        circ = construct_repetition_code_multi_round_circuit(qec_cycles=list(rounds), description=desc, initial_state=init)
    else:
        circ = construct_repetition_code_multi_round_circuit(qec_cycles=list(rounds), description=desc, initial_state=init)
        kern = mk_kernel()
    row = {'rounds': list(rounds), 'H': 1, 'reps': 1, 'd': d, 'state': list(state_bits), 'cycle': int(kern.kernel_cycle_length), 'qubits': [], 'kernel_first': kernel_first}
    states = [StateKey.STATE_0, StateKey.STATE_1, StateKey.STATE_2]
    ops = circ.operations
    for qid in desc.data_qubit_ids + desc.ancilla_qubit_ids:
        idx = desc.map_qubit_id_to_circuit_index(qid)
        anc = qid in desc.ancilla_qubit_ids
        q = {'anc': bool(anc), 'index': int(idx),
             'c_all': L(circ.get_acquisition_indices(idx)),
             'c_heralded': L(circ.get_acquisition_indices(AcquisitionTag(qubit_index=idx, tag='heralded'))),
             'c_parity': L(circ.get_acquisition_indices(AcquisitionTag(qubit_index=idx, tag='parity'))),
             'c_final': L(circ.get_acquisition_indices(AcquisitionTag(qubit_index=idx, tag='final'))),
             'k_heralded': [L(kern.get_heralded_cycle_acquisition_indices(qid, r)) for r in rounds],
             'k_stab_proj': [L(kern.get_stabilizer_and_projected_cycle_acquisition_indices(qid, r)) for r in rounds],
             'k_proj': [L(kern.get_projected_cycle_acquisition_indices(qid, r)) for r in rounds],
             'k_cal_her': [L(kern.get_heralded_calibration_acquisition_indices(qid, s)) for s in states],
             'k_cal_proj': [L(kern.get_projected_calibration_acquisition_indices(qid, s)) for s in states]}
        # what is done to the qubit between its measurements: gates[j] = kinds of the operations on this qubit since its
        # previous measurement, for the measurement with per-qubit index meas[j]
        gates, meas, cur = [], [], []
        for op in ops:
            qs = list(getattr(op, 'qubit_indices', None) or ([op.qubit_index] if hasattr(op, 'qubit_index') else []))
            if idx not in qs or type(op).__name__ in ('Barrier', 'CoordinateShiftOperation', 'DetectorOperation', 'LogicalObservableOperation'):
                continue
            if type(op).__name__ == 'DispersiveMeasure':
                meas.append(int(op.acquisition_index))
                gates.append(cur)
                cur = []
            else:
                cur.append(type(op).__name__)
        q['meas'] = meas
        q['gates'] = gates
        row['qubits'].append(q)
    return row


def main(maxround, maxlen, dmax, out, seed, nrandom):
    rows = []
    rnd = random.Random(seed)
    lists = [p for n in range(1, maxlen + 1) for p in itertools.permutations(range(maxround + 1), n)]
    for rounds in lists:
        for d in range(2, dmax + 1):
            bits = [rnd.randint(0, 1) for _ in range(d)]
            rows.append(guarded(one, rounds, d, bits, _label='rounds=%s d=%d' % (list(rounds), d)))
    for _ in range(nrandom):
        n = rnd.randint(1, 4)
        rounds = rnd.sample(range(0, 9), n)
        d = rnd.randint(2, 4)
        rows.append(guarded(one, rounds, d, [rnd.randint(0, 1) for _ in range(d)], _label='rounds=%s d=%d' % (list(rounds), d)))
    # long blocks (deep circuit graphs): the counts a real experiment uses are far beyond the enumerated universe
    for rounds, d in ([([2, 60], 2), ([70], 3)] if nrandom <= 10 else [([2, 60], 2), ([70], 3), ([120, 0, 3], 2), ([1, 90], 4)]):
        rows.append(guarded(one, rounds, d, [rnd.randint(0, 1) for _ in range(d)], _label='rounds=%s d=%d' % (list(rounds), d)))
    json.dump(rows, open(out, 'w'))
    print(len(rows))


if __name__ == '__main__':
    main(int(sys.argv[1]), int(sys.argv[2]), int(sys.argv[3]), sys.argv[4], int(sys.argv[5]), int(sys.argv[6]))
