"""Projection of recorded RepetitionExperimentKernel rows (harness/drv_kernel.py) onto events of spec/KernelInductive.tla, plus a few
descriptions with large round counts that only the unbounded specification covers.  argv: rows-in events-out seed"""
import json
import random
import sys

from guard import guarded
import drv_kernel


def events(row):
    ev = []
    for r, b in zip(row['rounds'], row['blocks']):
        ev.append({'ev': 'Append', 'r': r, 'start': b['start'], 'stop': b['stop'], 'her': b['her_a'], 'stab': b['stab_a'], 'fin': b['fin_d'], 'fina': b['fin_a'], 'herd': b['her_d']})
    ev.append({'ev': 'Close', 'cycle': row['cycle'], 'calStart': row['cal'].get('start', -1), 'calHer': row['cal'].get('her', []), 'calProj': row['cal'].get('proj', [])})
    first = row['sl_proj_d'][0]                                   # projected index of the first block, one entry per repetition
    for k in range(1, len(first)):
        ev.append({'ev': 'NextRep', 'base': first[k][0] - first[0][0]})
    return {'H': row['H'], 'K': row['K'], 'rounds': row['rounds'], 'reps': row['reps'], 'events': ev}


def main(tin, out, seed):
    rows = [r for r in json.load(open(tin)) if r.get('t') != 'error']
    rnd = random.Random(seed)
    for _ in range(6):
        rounds = rnd.sample([0, 1, 2, 97, 256, 1000, 1500, rnd.randint(3, 2000)], rnd.randint(1, 5))
        r = guarded(drv_kernel.one, rounds, rnd.randint(0, 1), rnd.randint(1, 12), K=rnd.randint(0, 1), _label='large %s' % rounds)
        if r.get('t') != 'error':
            rows.append(r)
    json.dump([events(r) for r in rows], open(out, 'w'))
    print(len(rows))


if __name__ == '__main__':
    main(sys.argv[1], sys.argv[2], int(sys.argv[3]))
