"""Enumerate every concrete operation class the library defines and emit one leaf template per class (data-driven
alphabet for C05/C08/C15/C18): a class added to the library is picked up automatically."""
import inspect
import json
import sys
import warnings

warnings.filterwarnings('ignore')
import tracer  # noqa: E402
from replay import Machine  # noqa: E402
from qce_circuit.structure.intrf_circuit_operation import ICircuitOperation  # noqa: E402
from qce_circuit.structure.intrf_circuit_operation_composite import CircuitCompositeOperation  # noqa: E402
from qce_circuit.language.declarative_circuit import DeclarativeCircuit  # noqa: E402

EXTRA = {
    'DetectorOperation': [[['last_acquisition_index', 5], ['main_target', 4], ['secondary_target', 3], ['reference_offset', 2], ['secondary_offset', 1]],
                          [['last_acquisition_index', 5], ['main_target', 4], ['secondary_target', 3], ['reference_offset', 2]],
                          [['last_acquisition_index', 5], ['main_target', 4], ['reference_offset', 2]],
                          [['last_acquisition_index', 5], ['main_target', 4], ['secondary_target', 3]],
                          [['last_acquisition_index', 5], ['main_target', 4]],
                          [['last_acquisition_index', 5]],
                          [['last_acquisition_index', 0], ['main_target', 0]],
                          [['last_acquisition_index', 1], ['main_target', 0], ['secondary_target', 1], ['reference_offset', 1]]],
    'LogicalObservableOperation': [[['last_acquisition_index', 5], ['main_target', 4]], [['last_acquisition_index', 7], ['main_target', 2]],
                                   [['last_acquisition_index', 0], ['main_target', 0]], [['last_acquisition_index', 3], ['main_target', 0]]],
    'CoordinateShiftOperation': [[['space_shift', 0], ['time_shift', 1]], [['space_shift', 2], ['time_shift', 0]]],
}


def main(out):
    m = Machine()
    circ = DeclarativeCircuit()
    templates, skipped = [], []
    import qce_circuit.library.repetition_code.circuit_components  # noqa: F401  (library-defined operation classes)
    for cls in tracer.all_subclasses(ICircuitOperation):
        if inspect.isabstract(cls) or issubclass(cls, CircuitCompositeOperation):
            continue
        kind = cls.__name__
        sig = inspect.signature(cls.__init__).parameters
        two = 'control_qubit_index' in sig
        multi = 'qubit_indices' in sig
        qs = [0, 1] if (two or multi) else [0]
        variants = EXTRA.get(kind, [[]])
        for ex in variants:
            tm = {'kind': kind, 'qs': qs, 'chans': [[0, 'FLUX']], 'dur': ['fixed', 6], 'tag': 'a' if 'acquisition_tag' in sig else '', 'extra': ex}
            try:
                op = m.mk_op(tm, circ, {'k': 'none'})
                st = m.rec.leaf_static(op)
                tm.update({'chans': st['chans'], 'dur': st['dur'], 'qs': st['qs'], 'tag': st['tag'], 'extra': st['extra']})
                templates.append(tm)
            except Exception as e:  # a class this harness cannot construct is reported, never silently dropped
                skipped.append([kind, e.__class__.__name__, str(e)[:200]])
    json.dump({'templates': templates, 'skipped': skipped}, open(out, 'w'))
    print(len(templates), len(skipped))


if __name__ == '__main__':
    main(sys.argv[1])
