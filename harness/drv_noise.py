"""C14 driver: apply the real noise dresser to Stim circuits (exporter outputs and generated sequences) under several
settings / index maps; classify every numeric argument of the output by the parameter selection that produces it."""
import itertools
import json
import math
import random
import sys
import warnings
from guard import guarded

warnings.filterwarnings('ignore')
import stim  # noqa: E402
import stimread  # noqa: E402
from qce_circuit.addon_stim.noise_factory_manager import apply_noise  # noqa: E402
from qce_circuit.addon_stim.noise_settings_manager import NoiseSettings, QubitNoiseModelParameters, OperationDurationParameters  # noqa: E402
from qce_circuit.connectivity.intrf_channel_identifier import QubitIDObj  # noqa: E402
from qce_circuit.library.repetition_code.circuit_constructors import construct_repetition_code_circuit  # noqa: E402
from qce_circuit.library.repetition_code.circuit_components import RepetitionCodeDescription  # noqa: E402
from qce_circuit.language.intrf_declarative_circuit import InitialStateContainer, InitialStateEnum  # noqa: E402
from qce_circuit.addon_stim import to_stim  # noqa: E402

T1 = {1: 10e-6, 2: 37e-6, 3: 90e-6}
T2 = {1: 20e-6, 2: 53e-6, 3: 11e-6}
AE = {1: 0.01, 2: 0.05, 3: 0.002, 4: 0.0}
TWO = ('CZ', 'CX', 'CNOT', 'CY', 'SWAP')
NONE = ('TICK', 'DETECTOR', 'OBSERVABLE_INCLUDE', 'SHIFT_COORDS', 'QUBIT_COORDS')


def arity(n):
    return 2 if n in TWO else (0 if n in NONE else 1)


def formula(t, t1, t2):
    if t == 0:
        return (0.0, 0.0, 0.0)
    px = 0.25 * (1 - math.exp(-t / t1))
    pz = 0.5 * (1 - math.exp(-t / t2)) - 0.25 * (1 - math.exp(-t / t1))
    c = lambda x: min(max(x, 0.0), 1.0)
    return (c(px), c(px), c(pz))


SETTINGS = [
    {'name': 'zero-override', 'durs': {'M': 300e-9, 'CZ': 40e-9, 'H': 25e-9, 'X': 22e-9}, 'default': (1, 2, 2), 'individual': {'D1': (2, 1, 4), 'Z1': (1, 1, 1)}, 'index_map': {1: 'D1', 0: 'Z1', 2: 'D1'}},
    {'name': 'same-durations-other-T', 'durs': {'M': 500e-9, 'CZ': 60e-9, 'H': 20e-9, 'X': 21e-9}, 'default': (2, 3, 2), 'individual': {'D1': (3, 1, 1)}, 'index_map': {0: 'D1'}},
    {'name': 'default-like', 'durs': {'M': 500e-9, 'CZ': 60e-9, 'H': 20e-9, 'X': 21e-9}, 'default': (1, 1, 1), 'individual': {}, 'index_map': {}},
    {'name': 'per-qubit', 'durs': {'M': 400e-9, 'CZ': 700e-9, 'H': 30e-9, 'X': 45e-9}, 'default': (1, 2, 1),
     'individual': {'D1': (2, 3, 2), 'Z1': (3, 1, 3), 'D2': (3, 3, 1)}, 'index_map': {0: 'D1', 1: 'Z1', 2: 'D2'}},
    {'name': 'partial-map', 'durs': {'M': 35e-9, 'CZ': 30e-9, 'H': 300e-9, 'X': 250e-9}, 'default': (3, 3, 3),
     'individual': {'D1': (2, 3, 2), 'Z1': (1, 2, 2)}, 'index_map': {1: 'D1', 2: 'Z1', 0: 'Q9', 4: 'D1'}},
]


def real_settings(s):
    return NoiseSettings(
        default_t1=T1[s['default'][0]], default_t2=T2[s['default'][1]], default_assignment_error=AE[s['default'][2]],
        individual_noise={QubitIDObj(k): QubitNoiseModelParameters(t1=T1[v[0]], t2=T2[v[1]], assignment_error=AE[v[2]]) for k, v in s['individual'].items()},
        operation_durations=OperationDurationParameters(duration_mz=s['durs']['M'], duration_cz=s['durs']['CZ'], duration_h=s['durs']['H'], duration_x=s['durs']['X']))


def instructions(circ):
    """Instructions of a (flattened) stim circuit with exact arguments, fused targets split."""
    out = []
    for ins in circ.flattened():
        ts = []
        for t in ins.targets_copy():
            ts.append(['rec', t.value] if t.is_measurement_record_target else int(t.value))
        out.append({'name': ins.name, 'args': list(ins.gate_args_copy()), 'targets': ts})
    return stimread.split_targets(out, arity)


def read(circ, s=None):
    out = []
    for ins in instructions(circ):
        ts = [t if isinstance(t, int) else 1000 + abs(t[1]) for t in ins['targets']]      # record targets as distinct large integers
        cls = ['plain']
        rng = True
        if s is not None and ins['name'] in ('M', 'MZ') and ins['args']:
            ids = [k for k, v in AE.items() if abs(v - ins['args'][0]) <= 1e-12]
            cls = ['ae', ids[0] if ids else 0]
            rng = 0 <= ins['args'][0] <= 1
        if s is not None and ins['name'] == 'PAULI_CHANNEL_1':
            px, py, pz = ins['args']
            rng = all(0 <= x <= 1 for x in (px, py, pz)) and px + py + pz <= 1 + 1e-12
            cls = ['idle', 'unknown', 0, 0]
            for key, dur in list(s['durs'].items()) + [('none', 0.0)]:
                for a, b in itertools.product(T1, T2):
                    e = formula(dur * 0.5, T1[a], T2[b])
                    if all(abs(x - y) <= 1e-9 * max(1.0, abs(y)) + 1e-15 for x, y in zip((px, py, pz), e)):
                        if key == 'none' or dur > 0:
                            cls = ['idle', key, a, b] if dur > 0 else ['idle', 'none', 0, 0]
        name = 'M' if ins['name'] == 'MZ' else ins['name']
        out.append({'name': name, 'targets': ts, 'cls': cls, 'range_ok': bool(rng)})
    return out


def row(circ, s, src, ns=None):
    noisy = apply_noise(circ, qubit_index_map={k: QubitIDObj(v) for k, v in s['index_map'].items()}, noise_settings=real_settings(s) if ns is None else ns)
    ranks = sorted(s['durs'], key=lambda k: s['durs'][k])
    out = read(noisy, s)
    # an idle channel of key "none" does not depend on T1/T2: normalise the expectation side the same way (t1 = t2 = 0)
    return {'src': src, 'settings': {'name': s['name'], 'durs': [[k, ranks.index(k) + 1] for k in s['durs']], 'default': list(s['default']),
                                     'individual': [[k, list(v)] for k, v in s['individual'].items()], 'index_map': [[k, v] for k, v in s['index_map'].items()]},
            'input': read(circ), 'output': out,
            'without_noise_equal': str(noisy.without_noise()) == str(circ.flattened())}


def main(out, nseq, seed):
    rnd = random.Random(seed)
    rows = []
    E = {0: InitialStateEnum.ZERO, 1: InitialStateEnum.ONE}
    circs = []
    for d, cycles in ((2, 0), (2, 2), (3, 1), (3, 4)):
        desc = RepetitionCodeDescription.from_chain(length=2 * d - 1)
        init = InitialStateContainer.from_ordered_list([E[rnd.randint(0, 1)] for _ in range(d)])
        circs.append(('repcode-d%d-c%d' % (d, cycles), to_stim(construct_repetition_code_circuit(qec_cycles=cycles, description=desc, initial_state=init))))
    names = ['R', 'X', 'H', 'CZ', 'M', 'M', 'TICK', 'DETECTOR', 'SQRT_Y', 'I']
    for n in range(nseq):
        c = stim.Circuit()
        nm = 0
        for _ in range(rnd.randint(0, 7)):
            g = rnd.choice(names)
            if g == 'CZ':
                a, b = rnd.sample(range(3), 2)
                c.append('CZ', [a, b])
            elif g == 'TICK':
                c.append('TICK')
            elif g == 'DETECTOR':
                if nm:
                    c.append('DETECTOR', [stim.target_rec(-rnd.randint(1, nm))], [0, 0])
            elif g == 'M':
                ts = rnd.sample(range(5), rnd.randint(1, 3))
                c.append('M', ts)
                nm += len(ts)
            else:
                c.append(g, [rnd.randint(0, 2)])
        circs.append(('seq%d' % n, c))
    for name, c in circs:
        for s in SETTINGS:
            rows.append(guarded(row, c, s, name, _label='%s / %s' % (name, s['name'])))
    # sessions: ONE NoiseSettings object reused over several calls whose qubit_index_map differs (rotated, then the original again):
    # what a call configures must come from its own arguments, not from an earlier call with the same settings object
    for s in SETTINGS:
        if len(s['index_map']) < 2:
            continue
        ns = real_settings(s)
        keys, vals = list(s['index_map']), list(s['index_map'].values())
        maps = [dict(zip(keys, vals)), dict(zip(keys, vals[1:] + vals[:1])), dict(zip(keys, vals))]
        for name, c in circs[:6]:
            for j, m in enumerate(maps):
                s2 = dict(s, index_map=m, name='%s-session%d' % (s['name'], j))
                rows.append(guarded(row, c, s2, name, ns=ns, _label='%s / %s' % (name, s2['name'])))
    json.dump(rows, open(out, 'w'))
    print(len(rows))


if __name__ == '__main__':
    main(sys.argv[1], int(sys.argv[2]), int(sys.argv[3]))
