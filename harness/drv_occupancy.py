"""C10 driver: record the structure of library circuits (as constructed and unrolled) for spec/Occupancy.tla: every
operation with channels, duration term and reported relation, every block with its members, a topological order of the
relation graph, and the times the real code reports (memo-free) under a few sample configurations."""
import json
import random
import sys
import warnings

warnings.filterwarnings('ignore')
import tracer  # noqa: E402
from tracer import Recorder, q, SCALE  # noqa: E402
from qce_circuit.library.repetition_code.circuit_constructors import (  # noqa: E402
    construct_repetition_code_circuit, construct_repetition_code_circuit_simplified)
from qce_circuit.library.repetition_code.circuit_components import RepetitionCodeDescription  # noqa: E402
from qce_circuit.library.state_calibration.circuit_constructors import construct_calibration_circuit  # noqa: E402
from qce_circuit.library.state_calibration.circuit_components import CalibrationDescription, CalibrateType  # noqa: E402
from qce_circuit.language.intrf_declarative_circuit import InitialStateContainer, InitialStateEnum  # noqa: E402
from qce_circuit.structure.registry_duration import GlobalRegistryKey, temporary_override_get_registry_at  # noqa: E402
from qce_circuit.connectivity.intrf_channel_identifier import QubitIDObj  # noqa: E402

GKN = {'RO': GlobalRegistryKey.READOUT, 'MW': GlobalRegistryKey.MICROWAVE, 'FL': GlobalRegistryKey.FLUX, 'RST': GlobalRegistryKey.RESET}


def structure(circ, grid, rnd, nsamples, probe=False):
    R = Recorder()
    S = circ.circuit_structure
    warm = None
    if probe:
        # the schedule as the public API reports it when the duration is asked first and the listing afterwards (a freshly
        # constructed circuit, nothing queried before): judged by the same predicates as the computed schedules
        _ = circ.duration
        warm = {R.oid(o): [q(o.start_time), q(o.end_time)] for o in circ.operations}
    snap = R.snapshot(S, cold=True, acq=False)
    nodes = {}
    for i, o in snap['leaves'].items():
        nodes[i] = {'t': 'op', 'kind': o['kind'], 'chans': o['chans'], 'dur': o['dur'], 'rlink': {k: o['rlink'][k] for k in ('k', 'ref', 'refs', 'rt')}, 'members': []}
    for i, c in snap['comps'].items():
        nodes[i] = {'t': 'comp', 'kind': 'Composite', 'chans': [], 'dur': ['span'], 'rlink': {k: c['rlink'][k] for k in ('k', 'ref', 'refs', 'rt')}, 'members': c['members']}
    # topological order by depth-first search over "my time depends on"
    order, seen = [], set()

    def deps(i):
        n = nodes[i]
        d = list(n['members'])
        if n['rlink']['k'] == 'one':
            d.append(n['rlink']['ref'])
        elif n['rlink']['k'] == 'multi':
            d += n['rlink']['refs']
        return [x for x in d if x in nodes]
    sys.setrecursionlimit(20000)

    def visit(i):
        if i in seen:
            return
        seen.add(i)
        for d in deps(i):
            visit(d)
        order.append(i)
    for i in list(snap['order']) + list(snap['comps']):
        visit(i)
    samples = []
    for _ in range(nsamples):
        cfg = {k: rnd.choice(grid) for k in ('RO', 'MW', 'FL', 'RST')}
        with temporary_override_get_registry_at({GKN[k]: v / SCALE for k, v in cfg.items()}):
            s2 = R.snapshot(S, cold=True, acq=False)
        times = {}
        for i, o in s2['leaves'].items():
            times[i] = [o['start_c'], o['start_c'] + o['dur_v']]
        for i, c in s2['comps'].items():
            times[i] = [c['start_c'], c['start_c'] + c['dur_c']]
        samples.append({'cfg': cfg, 'times': times})
    return {'nodes': nodes, 'topo': order, 'grid': grid, 'samples': samples, 'n_ops': len(snap['leaves']), 'warm': warm}


def build_items(dmax, cmax, rnd):
    items = []
    for d in range(2, dmax + 1):
        desc = RepetitionCodeDescription.from_chain(length=2 * d - 1)
        init = InitialStateContainer.from_ordered_list([InitialStateEnum.ONE if rnd.randint(0, 1) else InitialStateEnum.ZERO for _ in range(d)])
        for cycles in range(0, (cmax if d == 2 else max(1, cmax - 2 * (d - 2))) + 1):
            for ctor, f in (('main', construct_repetition_code_circuit), ('simplified', construct_repetition_code_circuit_simplified)):
                if ctor == 'simplified' and (cycles == 0 or d > 3):
                    continue
                for variant in ('constructed', 'unrolled'):
                    circ = f(qec_cycles=cycles, description=desc, initial_state=init)
                    if variant == 'unrolled':
                        circ = circ.apply_modifiers()
                    items.append(('%s-d%d-c%d-%s' % (ctor, d, cycles, variant), circ))
    # one long unrolled circuit (a repeated block inside the unrolled sequence: >= 5 cycles, two ancillas)
    desc5 = RepetitionCodeDescription.from_chain(length=5)
    init5 = InitialStateContainer.from_ordered_list([InitialStateEnum.ONE, InitialStateEnum.ZERO, InitialStateEnum.ONE])
    items.append(('main-d3-c5-unrolled-long', construct_repetition_code_circuit(qec_cycles=5, description=desc5, initial_state=init5).apply_modifiers()))
    # chain descriptions other than the plain chain: derived from a device layout, and the same with one gate switched off
    # (a layer that only parks)
    from qce_circuit.library.repetition_code.circuit_components import CompositeRepetitionCodeDescription
    from qce_circuit.library.repetition_code.repetition_code_connectivity import Repetition9Code
    from qce_circuit.connectivity.intrf_channel_identifier import EdgeIDObj
    names = ['D7', 'Z3', 'D4', 'Z1', 'D5']
    inv = [QubitIDObj(n_) for n_ in names]
    lay = Repetition9Code()
    base = RepetitionCodeDescription.from_connectivity(involved_qubit_ids=inv, connectivity=lay)
    init3 = InitialStateContainer.from_ordered_list([InitialStateEnum.ONE, InitialStateEnum.ZERO, InitialStateEnum.ONE])
    items.append(('layout-D7Z3D4Z1D5-c2-unrolled', construct_repetition_code_circuit(qec_cycles=2, description=base, initial_state=init3).apply_modifiers()))
    for anc, dat in (('Z1', 'D4'), ('Z1', 'D5'), ('Z3', 'D7'), ('Z3', 'D4')):
        comp = CompositeRepetitionCodeDescription(_base_description=base, _qubit_index_map={q_: i for i, q_ in enumerate(inv)}, _connectivity=lay,
                                                  _exclude_gate_edge_ids=[EdgeIDObj(QubitIDObj(anc), QubitIDObj(dat))])
        items.append(('composite-no-%s%s-c1-constructed' % (anc, dat), construct_repetition_code_circuit(qec_cycles=1, description=comp, initial_state=init3)))
    # the same constructors for a chain WITHOUT qubit refocusing (data qubits idle during the rounds)
    for d_, cyc in ((2, 1), (3, 2)):
        descn = RepetitionCodeDescription.from_chain(length=2 * d_ - 1, qubit_refocusing=False)
        initn = InitialStateContainer.from_ordered_list([InitialStateEnum.ONE if k % 2 == 0 else InitialStateEnum.ZERO for k in range(d_)])
        items.append(('simplified-norefocus-d%d-c%d-constructed' % (d_, cyc), construct_repetition_code_circuit_simplified(qec_cycles=cyc, description=descn, initial_state=initn)))
        items.append(('main-norefocus-d%d-c%d-unrolled' % (d_, cyc), construct_repetition_code_circuit(qec_cycles=cyc, description=descn, initial_state=initn).apply_modifiers()))
    for typ in (CalibrateType.QUBIT, CalibrateType.QUTRIT):
        for n in (1, 3):
            ids = [QubitIDObj('D%d' % (i + 1)) for i in range(n)]
            cd = CalibrationDescription(_qubit_ids=ids, _qubit_index_map={q_: i for i, q_ in enumerate(ids)}, _type=typ)
            items.append(('calibration-%s-%d' % (typ.name, n), construct_calibration_circuit(description=cd)))
    return items


def recorder_for(name, circ):
    """A recorder that numbers the objects of `circ` exactly as structure() did when the structure file was written (for probed
    items the operations were numbered in listing order before the snapshot)."""
    R = Recorder()
    if name.endswith('-constructed') or name.startswith('calibration-'):
        _ = circ.duration
        for o in circ.operations:
            R.oid(o)
    return R


def confirm(path_in, path_out, dmax, cmax, seed):
    """Re-evaluate reported overlaps on the real code: [{name, a, b, cfg}] -> adds 'confirmed'."""
    req = json.load(open(path_in))
    items = dict(build_items(dmax, cmax, random.Random(seed)))
    for r in req:
        R = recorder_for(r['name'], items[r['name']])
        S = items[r['name']].circuit_structure
        with temporary_override_get_registry_at({GKN[k]: v / SCALE for k, v in r['cfg'].items()}):
            sn = R.snapshot(S, cold=True, acq=False)
        a, b = sn['leaves'].get(r['a']), sn['leaves'].get(r['b'])
        if a is None or b is None:
            r['confirmed'] = False
            continue
        sa, ea, sb, eb = a['start_c'], a['start_c'] + a['dur_v'], b['start_c'], b['start_c'] + b['dur_v']
        r['real'] = [a['kind'], a['qs'], sa, ea, b['kind'], b['qs'], sb, eb]
        r['confirmed'] = (max(sa, sb) < min(ea, eb)) if r['clause'] == 'C10.overlap' else (sb < sa < eb)
    json.dump(req, open(path_out, 'w'))


def real_sweep(path_in, dmax, cmax, seed):
    """For structures on which the fold disagrees with the code: record the code's own times for the whole grid."""
    import itertools
    req = json.load(open(path_in))          # [{name, path}]
    items = dict(build_items(dmax, cmax, random.Random(seed)))
    for r in req:
        st = json.load(open(r['path']))
        R = recorder_for(r['name'], items[r['name']])
        S = items[r['name']].circuit_structure
        rec = []
        g = st['grid']
        for rst, fl, mw, ro in itertools.product(g, g, g, g):
            cfg = {'RO': ro, 'MW': mw, 'FL': fl, 'RST': rst}
            with temporary_override_get_registry_at({GKN[k]: v / SCALE for k, v in cfg.items()}):
                sn = R.snapshot(S, cold=True, acq=False)
            times = {i: [o['start_c'], o['start_c'] + o['dur_v']] for i, o in sn['leaves'].items()}
            rec.append({'cfg': cfg, 'times': times})
        st['recorded'] = rec
        st['samples'] = []
        json.dump(st, open(r['path'].replace('.json', '_rec.json'), 'w'))


def main(outdir, dmax, cmax, grid, seed, nsamples):
    rnd = random.Random(seed)
    grid = [int(x) for x in grid.split(',')]
    items = build_items(dmax, cmax, rnd)
    index = []
    for name, circ in items:
        probe = name.endswith('-constructed') or name.startswith('calibration-')
        st = structure(circ, grid, rnd, nsamples, probe=probe)
        warm = st.pop('warm')
        st['name'] = name
        path = '%s/occ_%03d.json' % (outdir, len(index))
        json.dump(st, open(path, 'w'))
        index.append({'name': name, 'path': path, 'n_ops': st['n_ops']})
        if warm is not None and set(warm) == set(i for i, n in st['nodes'].items() if n['t'] == 'op'):
            rec = dict(st)
            rec['name'] = name + '-asreported'
            rec['samples'] = []
            rec['recorded'] = [{'cfg': {'RO': 8, 'MW': 4, 'FL': 4, 'RST': 8}, 'times': warm}]
            path = '%s/occ_%03d.json' % (outdir, len(index))
            json.dump(rec, open(path, 'w'))
            index.append({'name': rec['name'], 'path': path, 'n_ops': st['n_ops']})
    json.dump(index, open(outdir + '/index.json', 'w'))
    print(len(index))


if __name__ == '__main__':
    if sys.argv[1] == 'realsweep':
        real_sweep(sys.argv[2], int(sys.argv[3]), int(sys.argv[4]), int(sys.argv[5]))
    elif sys.argv[1] == 'confirm':
        confirm(sys.argv[2], sys.argv[3], int(sys.argv[4]), int(sys.argv[5]), int(sys.argv[6]))
    else:
        main(sys.argv[1], int(sys.argv[2]), int(sys.argv[3]), sys.argv[4], int(sys.argv[5]), int(sys.argv[6]))
