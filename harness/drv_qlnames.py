"""C15 driver: program and kernel names of a fixed set of circuits, exported (with the recording doubles) in THIS interpreter
session.  The check runs it in two sessions with different hash seeds: the names must not depend on the session."""
import json
import sys
import warnings

warnings.filterwarnings('ignore')
import openql_double  # noqa: E402
from qce_circuit.language.declarative_circuit import DeclarativeCircuit  # noqa: E402
from qce_circuit.structure import circuit_operations as CO  # noqa: E402
from qce_circuit.structure.registry_repetition import FixedRepetitionStrategy  # noqa: E402


def circuits():
    out = []
    c = DeclarativeCircuit()
    for k in ('Rx180', 'Ry90', 'Hadamard'):
        c.add(getattr(CO, k)(0))
    c.add(CO.CPhase(0, 1))
    c.add(CO.DispersiveMeasure(1, acquisition_strategy=c.get_acquisition_strategy()))
    out.append(('flat', c))
    c2 = DeclarativeCircuit()
    c2.add(CO.Reset(0))
    s = DeclarativeCircuit()
    s.add(CO.Rx90(0))
    s.add(CO.Wait(0))
    c2.add(s)
    c2.add(CO.Rym90(1))
    out.append(('nested', c2))
    c3 = DeclarativeCircuit()
    c3.add(CO.Identity(2))
    out.append(('single', c3))
    c4 = DeclarativeCircuit()
    inner = DeclarativeCircuit()
    inner.add(CO.Ry180(1))
    mid = DeclarativeCircuit()
    mid.add(CO.Rx180(0))
    mid.add(inner)
    c4.add(mid)
    c4.add(CO.Barrier([0, 1]))
    out.append(('nested2', c4))
    return out


def main(out):
    rows = []
    for name, c in circuits():
        d = openql_double.export(c)
        rows.append({'circuit': name, 'status': d['status'], 'names': d['names']})
    json.dump(rows, open(out, 'w'))


if __name__ == '__main__':
    main(sys.argv[1])
