"""C09 / C10 / C11 (library part) driver: build repetition-code circuits with the real constructors, export, execute the
export with Stim's noiseless sampler, and record what the protocol machine (spec/RepCode.tla) needs to judge it."""
import itertools
import json
import random
import sys
import warnings
from guard import guarded

warnings.filterwarnings('ignore')
import numpy as np  # noqa: E402
import stim  # noqa: E402
import stimread  # noqa: E402
from qce_circuit.library.repetition_code.circuit_constructors import (  # noqa: E402
    construct_repetition_code_circuit, construct_repetition_code_circuit_simplified)
from qce_circuit.library.repetition_code.circuit_components import RepetitionCodeDescription  # noqa: E402
from qce_circuit.library.repetition_code.repetition_code_connectivity import Repetition9Code, Repetition9Round6Code, Repetition5Round4Code  # noqa: E402
from qce_circuit.language.intrf_declarative_circuit import InitialStateContainer, InitialStateEnum  # noqa: E402
from qce_circuit.addon_stim import to_stim  # noqa: E402

E = {0: InitialStateEnum.ZERO, 1: InitialStateEnum.ONE}


def describe(desc):
    """Index-level view of a description: data / ancilla circuit indices and, per ancilla, the data qubits it shares a gate with."""
    idx = desc.map_qubit_id_to_circuit_index
    nb = {}
    for layer in desc.gate_sequences:
        for op in layer.gate_operations:
            a, b = op.identifier.qubit_ids
            for x, y in ((a, b), (b, a)):
                if x in desc.ancilla_qubit_ids and y in desc.data_qubit_ids:
                    nb.setdefault(idx(x), [])
                    if idx(y) not in nb[idx(x)]:
                        nb[idx(x)].append(idx(y))
    return {'data_idx': [idx(q) for q in desc.data_qubit_ids], 'anc_idx': [idx(q) for q in desc.ancilla_qubit_ids],
            'neighbours': [[a, sorted(nb.get(a, []))] for a in [idx(q) for q in desc.ancilla_qubit_ids]],
            'measured': sorted(desc.measure_qubit_indices)}


def run_stim(circ):
    c = to_stim(circ)
    text = str(c)
    flat = stimread.flat(stimread.parse(text))
    mt = [t for ins in flat if ins['name'] == 'M' for t in ins['targets']]
    shots = c.compile_sampler(seed=11).sample(shots=3)
    shots2 = c.compile_sampler(seed=97).sample(shots=2)
    allshots = np.concatenate([shots, shots2])
    same = bool((allshots == allshots[0]).all())
    det = c.compile_detector_sampler(seed=5).sample(shots=4, append_observables=True)
    det_same = bool((det == det[0]).all())
    try:
        c.detector_error_model()
        dem = True
    except Exception:
        dem = False
    prepared = {}
    # which single-qubit gates act on each qubit between the heralding measurement and the first two-qubit gate / measurement
    return {'mrec': [[int(q), int(b)] for q, b in zip(mt, allshots[0])], 'shots_equal': same, 'det': [int(x) for x in det[0]], 'det_equal': det_same,
            'ndet': int(c.num_detectors), 'nobs': int(c.num_observables), 'dem_ok': dem, 'text': text}


def one(desc, dname, d, data_bits, anc_bits, cycles, ctor, want_text=False, refocus=None):
    init = InitialStateContainer.from_ordered_list([E[b] for b in data_bits], [E[b] for b in anc_bits] if anc_bits is not None else None)
    rows = []
    base = {'t': 'repcode', 'desc': dname, 'd': d, 'data': list(data_bits), 'anc': list(anc_bits) if anc_bits is not None else [], 'anc_given': anc_bits is not None,
            'cycles': cycles, 'refocus': bool(desc.contains_qubit_refocusing) if refocus is None else bool(refocus), 'ctor': ctor}
    base.update(describe(desc))
    f = construct_repetition_code_circuit if ctor == 'main' else construct_repetition_code_circuit_simplified
    texts = {}
    for variant in ('constructed', 'unrolled', 'flattened'):
        try:
            circ = f(qec_cycles=cycles, description=desc, initial_state=init)
            if variant in ('unrolled', 'flattened'):
                circ = circ.apply_modifiers()
            if variant == 'flattened':
                circ = circ.flatten()
            r = dict(base)
            r['variant'] = variant
            r.update(run_stim(circ))
            texts[variant] = r.pop('text')
            r['err'] = ''
        except Exception as e:
            r = dict(base)
            r.update({'variant': variant, 'mrec': [], 'shots_equal': True, 'det': [], 'det_equal': True, 'ndet': -1, 'nobs': -1, 'dem_ok': False,
                      'err': e.__class__.__name__ + ': ' + str(e)[:160]})
        rows.append(r)
    for r in rows:
        r['same_as_constructed'] = texts.get(r['variant']) == texts.get('constructed') if r['variant'] in texts and 'constructed' in texts else False
        r['same_flat_as_unrolled'] = True
    return rows


def chain_descs(dmax):
    for d in range(2, dmax + 1):
        for refocus in (True, False):
            yield RepetitionCodeDescription.from_chain(length=2 * d - 1, qubit_refocusing=refocus), 'chain%d%s' % (d, '' if refocus else '-norefocus'), d, refocus


def chain_order(lay):
    """The physical chain of a repetition layout: qubits in path order of the gate graph."""
    adj = {}
    for i in range(lay.gate_sequence_count):
        for op in lay.get_gate_sequence_at_index(i).gate_operations:
            a, b = op.identifier.qubit_ids
            adj.setdefault(a, set()).add(b)
            adj.setdefault(b, set()).add(a)
    ends = [q for q in adj if len(adj[q]) == 1]
    if len(ends) != 2:
        return []
    path, prev, cur = [ends[0]], None, ends[0]
    while True:
        nxt = [q for q in adj[cur] if q != prev]
        if not nxt:
            break
        prev, cur = cur, nxt[0]
        path.append(cur)
    return path


# the physical chains of the three shipped repetition layouts (path order on the Surface-17 device); stated here, not derived
# from the layout's own gate tables, so that a wrong table entry cannot hide itself
CHAINS = {
    'Repetition9Code': ['D1', 'X1', 'D2', 'X2', 'D3', 'Z2', 'D6', 'Z4', 'D5', 'Z1', 'D4', 'Z3', 'D7', 'X3', 'D8', 'X4', 'D9'],
    'Repetition9Round6Code': ['D1', 'X1', 'D2', 'X2', 'D3', 'Z2', 'D6', 'Z4', 'D5', 'Z1', 'D4', 'Z3', 'D7', 'X3', 'D8', 'X4', 'D9'],
    'Repetition5Round4Code': ['D3', 'Z2', 'D6', 'Z4', 'D5', 'Z1', 'D4', 'X3', 'D7'],
}


def layout_descs(maxlen):
    from qce_circuit.connectivity.intrf_channel_identifier import QubitIDObj
    for lay in (Repetition9Code(), Repetition9Round6Code(), Repetition5Round4Code()):
        code = [QubitIDObj(n) for n in CHAINS[lay.__class__.__name__]]
        for direction in (code, list(reversed(code))):
            for a in range(len(direction)):
                for b in range(a + 3, min(len(direction), a + maxlen) + 1):
                    sub = direction[a:b]
                    if sub[0] in lay.data_qubit_ids and sub[-1] in lay.data_qubit_ids:
                        nd = sum(1 for q in sub if q in lay.data_qubit_ids)
                        for refocus in (True, False):
                            name = '%s:%s%s' % (lay.__class__.__name__, '-'.join(q.id for q in sub), '' if refocus else ':norefocus')
                            try:
                                desc = RepetitionCodeDescription.from_connectivity(involved_qubit_ids=sub, connectivity=lay, qubit_refocusing=refocus)
                            except Exception as e:                      # noqa: BLE001  reported as an error row by main()
                                desc = e
                            yield desc, name, nd, refocus
                        if nd == 3 and direction is code:
                            # the caller's own qubit-to-channel map (here: the chain numbered backwards, with a gap)
                            name = '%s:%s:ownmap' % (lay.__class__.__name__, '-'.join(q.id for q in sub))
                            try:
                                desc = RepetitionCodeDescription.from_connectivity(involved_qubit_ids=sub, connectivity=lay,
                                                                                   qubit_index_map={q: len(sub) - i + (1 if i < 2 else 0) for i, q in enumerate(sub)})
                            except Exception as e:                      # noqa: BLE001
                                desc = e
                            yield desc, name, nd, True


def main(out, dmax, cmax, nlayout, seed, anc_states):
    rnd = random.Random(seed)
    rows = []
    for desc, name, d, rf in chain_descs(dmax):
        na = d - 1
        for cycles in range(0, cmax + 1):
            states = list(itertools.product((0, 1), repeat=d)) if d <= 3 else [tuple(rnd.randint(0, 1) for _ in range(d)) for _ in range(4)]
            for bits in states:
                ancs = [None]
                if anc_states and name.endswith(str(d)):
                    ancs += [tuple(rnd.randint(0, 1) for _ in range(na)) for _ in range(2)] + [tuple([1] * na)]
                for ab in ancs:
                    rows += guarded(one, desc, name, d, bits, ab, cycles, 'main', refocus=rf, _many=True, _label=name)
            if name.endswith(str(d)) and d <= 3:
                rows += guarded(one, desc, name, d, states[-1], None, cycles, 'simplified', _many=True, _label=name)
    # the smallest code: one data qubit, no ancilla (only heralding, refocusing flips and the final value remain)
    for rf_ in (True, False):
        desc1 = RepetitionCodeDescription.from_chain(length=1, qubit_refocusing=rf_)
        for cyc in range(0, 5):
            for bit in (0, 1):
                rows += guarded(one, desc1, 'chain1%s' % ('' if rf_ else '-norefocus'), 1, (bit,), None, cyc, 'main', refocus=rf_, _many=True, _label='chain1-c%d' % cyc)
    # many cycles (the repeated block is unrolled 5+ times; d >= 3 so that the block has leaves of different length)
    for d_, cyc in ((3, 7), (4, 6), (3, 9)):
        desc_ = RepetitionCodeDescription.from_chain(length=2 * d_ - 1)
        rows += guarded(one, desc_, 'chain%d' % d_, d_, tuple((k + 1) % 2 for k in range(d_)), None, cyc, 'main', refocus=True, _many=True, _label='chain%d-c%d' % (d_, cyc))
    lds = list(layout_descs(5))
    for desc, name, nd, rf in lds:
        if isinstance(desc, Exception):
            rows.append({'t': 'error', 'exc': '%s: %s' % (type(desc).__name__, str(desc)[:200]), 'where': 'from_connectivity', 'input': name})
    lds = [x for x in lds if not isinstance(x[0], Exception)]
    rnd.shuffle(lds)
    for desc, name, nd, rf in lds[:nlayout]:
        for cycles in (0, 1, 2, rnd.randint(3, max(3, cmax))):
            bits = tuple(rnd.randint(0, 1) for _ in range(nd))
            rows += guarded(one, desc, name, nd, bits, None, cycles, 'main', refocus=rf, _many=True, _label=name)
            if anc_states and nd >= 3 and cycles <= 1:
                # requested ancilla states that are not all equal (the order of the ancillas along the chain matters)
                ab = tuple((k + cycles) % 2 for k in range(nd - 1))
                rows += guarded(one, desc, name, nd, bits, ab, cycles, 'main', refocus=rf, _many=True, _label=name)
    # every ancilla of every shipped layout at least once with both of its chain neighbours: the shortest chains D-A-D, one
    # cycle, neighbours in different states (an entry of a layout table that pairs the ancilla with the wrong qubit shows here)
    for desc, name, nd, rf in lds:
        if nd == 2 and rf and ':norefocus' not in name:
            rows += guarded(one, desc, name, nd, (1, 0), None, 1, 'main', refocus=rf, _many=True, _label=name)
    own = [x for x in lds if x[1].endswith(':ownmap')]
    for desc, name, nd, rf in own[:3]:
        rows += guarded(one, desc, name, nd, (1, 0, 1), (0, 1), 2, 'main', refocus=rf, _many=True, _label=name)
    json.dump(rows, open(out, 'w'))
    print(len(rows))


if __name__ == '__main__':
    main(sys.argv[1], int(sys.argv[2]), int(sys.argv[3]), int(sys.argv[4]), int(sys.argv[5]), int(sys.argv[6]))
