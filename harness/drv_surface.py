"""C16 / C17 driver: record acceptance / parking verdicts, generator runs, device tables, shipped and derived layouts."""
import itertools
import json
import os
import random
import sys
import warnings
from guard import guarded

warnings.filterwarnings('ignore')
from qce_circuit.connectivity.connectivity_surface_code import Surface17Layer, get_requires_parking  # noqa: E402
from qce_circuit.connectivity.mapping.gate_sequence_generator import GateSequenceGenerator  # noqa: E402
from qce_circuit.connectivity.intrf_connectivity_gate_sequence import Operation  # noqa: E402
from qce_circuit.connectivity.intrf_channel_identifier import QubitIDObj, EdgeIDObj  # noqa: E402
from qce_circuit.library.repetition_code.repetition_code_connectivity import Repetition9Code, Repetition9Round6Code, Repetition5Round4Code  # noqa: E402
from qce_circuit.library.repetition_code.circuit_components import RepetitionCodeDescription, CompositeRepetitionCodeDescription  # noqa: E402

GROUP = {'LOW': 1, 'MID': 2, 'HIGH': 3}


def pair(e):
    return [e.qubit_ids[0].id, e.qubit_ids[1].id]


def c16(out, kmax_exh, nsample, seed, ngen):
    S = Surface17Layer()
    rows = []
    rows.append({'t': 'layout_tables', 'qubits': [q.id for q in S.qubit_ids], 'edges': [pair(e) for e in S.edge_ids],
                 'groups': [[q.id, GROUP[S.get_frequency_group_identifier(q).id.name]] for q in S.qubit_ids],
                 'parity': [[g.ancilla_id.id, [d.id for d in g.data_ids]] for g in S.parity_group_x + S.parity_group_z]})
    edges = list(S.edge_ids)
    rnd = random.Random(seed)

    def subset_row(es):
        ops = [Operation.type_gate(e) for e in es]
        rev = list(reversed(ops))
        rnd.shuffle(rev)
        return {'t': 'subset', 'edges': [pair(e) for e in es],
                'accepted': bool(GateSequenceGenerator.get_mutually_allowed(ops, S)),
                'accepted_rev': bool(GateSequenceGenerator.get_mutually_allowed(rev, S)),
                'parks': [q.id for q in S.qubit_ids if get_requires_parking(q, list(es), S)]}
    for k in range(1, kmax_exh + 1):
        for es in itertools.combinations(edges, k):
            rows.append(guarded(subset_row, es, _label=str([pair(e) for e in es])))
    for _ in range(nsample):
        k = rnd.choice([3, 4, 4, 5]) if kmax_exh < 4 else rnd.choice([5, 6])
        rows.append(guarded(subset_row, rnd.sample(edges, k), _label='random subset'))
    # reversed-orientation edges are the same gates
    for es in list(itertools.combinations(edges, 2))[:60]:
        flipped = [EdgeIDObj(e.qubit_ids[1], e.qubit_ids[0]) for e in es]
        rows.append(guarded(subset_row, flipped, _label='flipped'))
    # generator runs within the combination limit
    runs = [([0, 1, 2, 3, 6, 7, 16, 23], 2), ([0, 1, 2, 3, 6, 7], 3), ([4, 5, 8, 9, 17, 18], 3), ([10, 11, 12, 13, 14, 15], 2),
            ([19, 20, 21, 22, 0, 5], 3), ([0, 5, 8, 12, 16, 20, 22, 3], 4), ([1, 2, 4, 6, 9, 11], 2), ([7, 10, 13, 15, 18, 21], 3),
            ([0, 3, 4, 5, 14, 17, 19, 23, 12], 3), ([2, 6, 8, 11, 13, 16], 3), ([1, 7, 9, 10, 15, 20, 21, 22], 4), ([0, 1, 2, 3], 2)]
    # the same gates in a different order, same subgroup size, one process: verdicts must not leak between generators
    perm_runs = [([0, 1, 4, 6], 2), ([0, 4, 1, 6], 2), ([1, 0, 6, 4], 2), ([2, 3, 8, 20], 2), ([2, 8, 3, 20], 2), ([5, 7, 11, 15, 19, 22], 3), ([7, 5, 15, 11, 22, 19], 3), ([22, 19, 15, 11, 7, 5], 3)]
    # first a list whose gates are pairwise compatible, then lists (same length, same subgroup size) whose gates all collide
    lead_runs = [([0, 6, 17, 23], 2), ([10, 11, 12, 13], 2), ([0, 6, 17, 23, 8, 15], 3), ([10, 11, 12, 13, 4, 5], 3)]
    # edge lists whose length is not a multiple of the subgroup size (nothing can use every gate exactly once in full steps)
    # steps made only of D3-Z2 / D7-Z3 need no parking at all
    nopark = [i for i, e in enumerate(edges) if sorted(pair(e)) in (['D3', 'Z2'], ['D7', 'Z3'])]
    other = [i for i, e in enumerate(edges) if sorted(pair(e)) in (['D1', 'X1'], ['D9', 'X4'])]
    nopark_runs = [(nopark + other, 1), (nopark + other, 2), (other[:1] + nopark, 1)] if len(nopark) == 2 and len(other) == 2 else []
    odd_runs = [([0, 1, 2], 2), ([0, 6, 17, 23, 8], 2), ([10, 11, 12, 13], 3), ([0, 6], 3), ([4, 5, 8, 9, 17], 3)]
    for idx, size in lead_runs + runs[:ngen] + perm_runs + odd_runs + nopark_runs:
        es = [edges[i] for i in idx]

        def gen_row(es=es, size=size):
            gen = GateSequenceGenerator(included_edge_ids=es, connectivity=S)
            ident = gen.construct_allowed_gate_sequences(subgroup_size=size)
            seqs, parks, exported = [], [], []
            for seq in ident.construct_operation_sequences():
                seqs.append([[pair(op.identifier) for op in step] for step in seq.gate_operations])
                if len(seqs) <= 60:
                    # what the sequence reports per step as requiring parking, and the layout object it exports
                    parks.append([[op.identifier.id for op in step] for step in seq.get_required_parkings(S)])
                    g = seq.to_generic_surface_code(S)
                    exported.append([{'gates': [pair(op.identifier) for op in g.get_gate_sequence_at_index(i).gate_operations],
                                      'parks': [op.identifier.id for op in g.get_gate_sequence_at_index(i).park_operations]} for i in range(g.gate_sequence_count)])
            r = {'t': 'generator', 'edges': [pair(e) for e in es], 'size': size, 'count': int(ident.length), 'sequences': seqs[:400], 'parks': parks, 'exported': exported}
            r['count'] = len(r['sequences']) if ident.length > 400 else int(ident.length)
            return r
        rows.append(guarded(gen_row, _label='generator %s size %d' % ([pair(e) for e in es], size)))
    json.dump(rows, open(out, 'w'))
    print(len(rows))


def layers_of(seqs):
    return [{'gates': [pair(op.identifier) for op in L.gate_operations], 'parks': [op.identifier.id for op in L.park_operations]} for L in seqs]


def c17(out, nrandom, seed, small_max):
    rows = []
    rnd = random.Random(seed)
    layouts = [Repetition9Code(), Repetition9Round6Code(), Repetition5Round4Code()]
    if os.environ.get('VERIF_LAYOUT_ORDER') == 'reversed':      # the layouts are singletons sharing a base class: the order of first use must not matter
        layouts = list(reversed(layouts))
    for lay in layouts:
        base = [lay.get_gate_sequence_at_index(i) for i in range(lay.gate_sequence_count)]
        must = [[g.ancilla_id.id, d.id] for g in lay.parity_group_x + lay.parity_group_z for d in g.data_ids]
        rows.append({'t': 'layout', 'name': lay.__class__.__name__, 'layers': layers_of(base), 'must': must, 'strict': True})
        involved_all = list(lay.involved_qubit_ids)
        subsets = []
        # every contiguous sub-chain (in the layout's own qubit order), small subsets, near-complete subsets, random subsets / orders
        for a in range(len(involved_all)):
            for b in range(a + 2, len(involved_all) + 1):
                subsets.append(involved_all[a:b])
        for k in range(1, small_max + 1):
            for c in itertools.combinations(involved_all, k):
                subsets.append(list(c))
        for _ in range(nrandom):
            k = rnd.randint(2, len(involved_all))
            s = rnd.sample(involved_all, k)
            subsets.append(s)
        for inv in subsets:
            try:
                d = RepetitionCodeDescription.from_connectivity(involved_qubit_ids=list(inv), connectivity=lay)
                seqs = d.gate_sequences
                row = {'t': 'derived', 'name': lay.__class__.__name__, 'involved': [q.id for q in inv], 'code': [q.id for q in lay.data_qubit_ids + lay.ancilla_qubit_ids], 'layers': layers_of(seqs), 'base': layers_of(base),
                       'index_map': [[q.id, int(i)] for i, q in d.circuit_channel_map.items()],
                       'gate_idx': [[list(t) for t in d.get_gate_sequence_indices(k)] for k in range(len(seqs))]}
                rows.append(row)
            except Exception as e:
                rows.append({'t': 'derived_error', 'name': lay.__class__.__name__, 'involved': [q.id for q in inv], 'exc': e.__class__.__name__ + ': ' + str(e)[:200]})
    # composite descriptions with exclusions (edges given in either orientation, qubits) and "only required parking"
    for lay in layouts:
        base = RepetitionCodeDescription.from_connectivity(involved_qubit_ids=[q for q in lay.involved_qubit_ids if q in lay.data_qubit_ids or q in lay.ancilla_qubit_ids], connectivity=lay)
        base_layers = layers_of(base.gate_sequences)
        all_edges = [op.identifier for L in base.gate_sequences for op in L.gate_operations]
        code = base.data_qubit_ids + base.ancilla_qubit_ids
        for _ in range(max(6, nrandom // 6)):
            ex_e = rnd.sample(all_edges, rnd.randint(0, min(3, len(all_edges))))
            ex_e = [e if rnd.randint(0, 1) else EdgeIDObj(e.qubit_ids[1], e.qubit_ids[0]) for e in ex_e]      # either orientation
            ex_q = rnd.sample(code, rnd.randint(0, 2))
            only = bool(rnd.randint(0, 1))
            try:
                comp = CompositeRepetitionCodeDescription(_base_description=base, _qubit_index_map={q: i for i, q in enumerate(code)}, _connectivity=lay,
                                                          _exclude_gate_edge_ids=ex_e, _exclude_gate_qubit_ids=ex_q, _only_required_parking_operations=only)
                rows.append({'t': 'composite', 'name': lay.__class__.__name__, 'layers': layers_of(comp.gate_sequences), 'base': base_layers,
                             'exclude_edges': [pair(e) for e in ex_e], 'exclude_qubits': [q.id for q in ex_q], 'only_required': only})
            except Exception as e:
                rows.append({'t': 'derived_error', 'name': lay.__class__.__name__, 'involved': ['composite'], 'exc': e.__class__.__name__ + ': ' + str(e)[:200]})
    json.dump(rows, open(out, 'w'))
    print(len(rows))


if __name__ == '__main__':
    if sys.argv[1] == 'c16':
        c16(sys.argv[2], int(sys.argv[3]), int(sys.argv[4]), int(sys.argv[5]), int(sys.argv[6]))
    else:
        c17(sys.argv[2], int(sys.argv[3]), int(sys.argv[4]), int(sys.argv[5]))
