"""Program generation from spec/CircuitGen.tla: writes a wrapper module with a concrete alphabet, runs TLC
(bounded exhaustive or -simulate) and collects the programs TLC prints."""
import json
import os
import random
import re

import common
from common import run_tlc, scratch, SPEC


def tla(v):
    return common.tla_value(v)


def leaf(kind, qs, chans, dur, tag='', extra=None):
    base = '%s, %s, %s, %s, %s' % (tla(kind), tla(list(qs)), tla([list(c) for c in chans]), tla(list(dur)), tla(tag))
    if extra:
        return 'TX(%s, %s)' % (base, tla([list(e) for e in extra]))
    return 'T(%s)' % base


def mask(t, kind='', q=0, q2=-1, chan=''):
    return 'MaskRec(%s, %s, %d, %d, %s)' % (tla(t), tla(kind), q, q2, tla(chan))


def mask_list(*ms):
    return '<<' + ', '.join(ms) + '>>'


DEFAULT_CFG = {'RO': 8, 'MW': 4, 'FL': 4, 'RST': 8}


def wrapper(name, menu, reps, configs, acts, linktypes, base='CircuitGen', extra_defs='', anchors=None, obskinds=('full',), masks=()):
    cfgs = ', '.join('[RO |-> %d, MW |-> %d, FL |-> %d, RST |-> %d]' % (c['RO'], c['MW'], c['FL'], c['RST']) for c in configs)
    return '''---- MODULE %s ----
EXTENDS %s
M_Menu == {%s}
M_Reps == {%s}
M_Configs == {%s}
M_Acts == {%s}
M_LinkTypes == {%s}
M_Anchors == %s
M_ObsKinds == {%s}
M_Masks == {%s}
%s
====
''' % (name, base, ',\n  '.join(menu), ', '.join(tla(list(r)) for r in reps), cfgs, ', '.join(tla(a) for a in acts),
       ', '.join(tla(t) for t in linktypes), ('{' + ',\n  '.join(anchors) + '}') if anchors is not None else 'M_Menu', ', '.join(tla(o) for o in obskinds), ', '.join(masks), extra_defs)


def cfg_text(max_circs, max_objs, max_steps, invariants=(), properties=(), view=None, min_emit=2, one_in=1, deep=False, max_non_anchor=99, init=False, salt=0):
    s = ('INIT M_Init\nNEXT Next\n' if init else 'SPECIFICATION Spec\n') + 'CONSTANTS MaxCircs = %d MaxObjs = %d MaxSteps = %d MinEmit = %d EmitOneIn = %d EmitSalt = %d DeepRefs = %s MaxNonAnchor = %d\n' % (max_circs, max_objs, max_steps, min_emit, one_in, salt, 'TRUE' if deep else 'FALSE', max_non_anchor)
    s += ' Menu <- M_Menu Reps <- M_Reps Configs <- M_Configs Acts <- M_Acts LinkTypes <- M_LinkTypes Anchors <- M_Anchors ObsKinds <- M_ObsKinds Masks <- M_Masks\n'
    if view:
        s += 'VIEW %s\n' % view
    for i in invariants:
        s += 'INVARIANT %s\n' % i
    for p in properties:
        s += 'PROPERTY %s\n' % p
    return s


_PROG = re.compile(r'^<<"PROGRAM", (".*")>>$')


def parse_programs(out):
    progs = {}
    for line in out.splitlines():
        m = _PROG.match(line)
        if m:
            txt = json.loads(m.group(1))
            progs[txt] = 1
    return [json.loads(t) for t in progs]


def run_gen(name, menu, reps=(('fixed', 1),), configs=(DEFAULT_CFG,), acts=('NewCircuit', 'AddOp', 'Obs'),
            linktypes=('FB', 'JS', 'JE'), max_circs=1, max_objs=5, max_steps=5, simulate=None, depth=None,
            workers=1, seed=1, cap=None, base='CircuitGen', invariants=('EmitProgram',), properties=(), timeout=1500, view=None, min_emit=2, one_in=1, deep=False, anchors=None, max_non_anchor=99, init_defs='', obskinds=('full',), masks=()):
    mod = 'MCGen_' + name
    extra = ['-seed', str(seed)]
    res = run_tlc(mod, cfg_text(max_circs, max_objs, max_steps, invariants, properties, view, min_emit, one_in, deep, max_non_anchor, bool(init_defs), salt=(int(seed) * 7919) % 1000003), workers=workers,
                  simulate=simulate, depth=depth, extra=extra, name=mod, timeout=timeout,
                  modules={mod: wrapper(mod, menu, reps, configs, acts, linktypes, base=base, anchors=anchors, extra_defs=init_defs, obskinds=obskinds, masks=masks)})
    progs = parse_programs(res.out)
    total = len(progs)
    if cap and len(progs) > cap:
        rnd = random.Random(seed)
        progs.sort(key=lambda p: json.dumps(p, sort_keys=True))
        progs = rnd.sample(progs, cap)
    return progs, res, total
