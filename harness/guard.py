"""Rows of the table drivers: a library call that raises on an input of the table becomes an error row (the check reports it
as a violation of the property the table belongs to) instead of aborting the driver (which would be a machinery failure)."""
import traceback


def guarded(fn, *a, _label=None, _many=False, **k):
    try:
        return fn(*a, **k)
    except Exception as e:                                            # noqa: BLE001
        tb = traceback.extract_tb(e.__traceback__)
        where = '%s:%d' % (tb[-1].filename.split('/src/')[-1], tb[-1].lineno) if tb else ''
        row = {'t': 'error', 'exc': '%s: %s' % (type(e).__name__, str(e)[:200]), 'where': where,
               'input': _label if _label is not None else repr(a)[:300]}
        return [row] if _many else row
