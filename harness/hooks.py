"""Recording hooks on the public builder API (DeclarativeCircuit), installed from /verif under QCOCIRCUITS_VERIF=1.

Whatever code builds circuits -- the repository's own tests, the library constructors -- is recorded as a trace in the
event format of spec/CircuitTrace.tla: one event per public call, written at the call's return (the linearisation point of
a sequential library), on the exception path too.  Nothing in /repo is edited; the patching is undone by uninstall().
"""
import os

assert os.environ.get('QCOCIRCUITS_VERIF') == '1'

import tracer  # noqa: E402
from tracer import Recorder  # noqa: E402
from qce_circuit.language.declarative_circuit import DeclarativeCircuit  # noqa: E402
from qce_circuit.structure.intrf_circuit_operation_composite import CircuitCompositeOperation  # noqa: E402


class Session:
    def __init__(self):
        self.rec = Recorder()
        self.events = []
        self.circuits = []          # DeclarativeCircuit handles in creation order (strong refs)
        self.depth = 0              # calls made by the library inside a recorded call are not events of their own
        self.saved = {}
        self.active = False

    # ------------------------------------------------------------------ install
    def install(self):
        self.rec.install()
        S = self
        D = DeclarativeCircuit
        for name in ('__init__', 'add_operation', 'add_sub_circuit', 'apply_modifiers', 'flatten'):
            self.saved[name] = D.__dict__[name]
        self.saved_struct_add = CircuitCompositeOperation.__dict__['add']

        def struct_add(self_, operation):
            """circuit_structure.add(...) called by user code directly (public on the composite): same events, no copy."""
            if not S.active or S.depth > 0:
                return S.saved_struct_add(self_, operation)
            R = S.rec
            S.adopt(self_)
            is_comp = isinstance(operation, CircuitCompositeOperation)
            if is_comp:
                S.adopt(operation)
            given = S.clean(R.link(operation))
            S.depth += 1
            try:
                ret = S.saved_struct_add(self_, operation)
            finally:
                S.depth -= 1
            if is_comp:
                S.events.append({'ev': 'AddSub', 'c': R.oid(self_), 's': R.oid(operation), 'id': R.oid(operation), 'cmap': [], 'given': given,
                                 'after': S.clean(R.link(operation)), 'how': 'struct', 'recs': {}, 'links': {}, 'last_same': True, 'tree': R.tree(operation)})
            else:
                S.events.append({'ev': 'AddOp', 'c': R.oid(self_), 'id': R.oid(operation), 'rec': R.leaf_static(operation), 'given': given,
                                 'after': S.clean(R.link(operation)), 'ret_same': True, 'last_same': True})
            return ret
        CircuitCompositeOperation.add = struct_add

        def init(self_, *a, **k):
            S.saved['__init__'](self_, *a, **k)
            if S.active and S.depth == 0:
                R = S.rec
                S.circuits.append(self_)
                st = self_.circuit_structure
                S.events.append({'ev': 'NewCircuit', 'c': R.oid(st), 'rep': R.rep_term(st), 'link': S.clean(R.link(st))})

        def add_operation(self_, operation):
            if not S.active or S.depth > 0:
                return S.saved['add_operation'](self_, operation)
            R = S.rec
            given = S.clean(R.link(operation))
            S.depth += 1
            try:
                ret = S.saved['add_operation'](self_, operation)
            finally:
                S.depth -= 1
            S.events.append({'ev': 'AddOp', 'c': R.oid(self_.circuit_structure), 'id': R.oid(operation), 'rec': R.leaf_static(operation), 'given': given,
                             'after': S.clean(R.link(operation)), 'ret_same': ret is operation, 'last_same': self_.get_last_entry() is operation})
            return ret

        def add_sub_circuit(self_, operation):
            if not S.active or S.depth > 0:
                return S.saved['add_sub_circuit'](self_, operation)
            R = S.rec
            S.adopt(operation)
            given = S.clean(R.link(operation))
            R.take_copies()
            S.depth += 1
            try:
                new = S.saved['add_sub_circuit'](self_, operation)
            finally:
                S.depth -= 1
            cps = R.take_copies()
            cm = [[R.oid(n), R.oid(o)] for (n, o, _t) in cps]
            recs, links = S.describe(new)
            S.events.append({'ev': 'AddSub', 'c': R.oid(self_.circuit_structure), 's': R.oid(operation), 'id': R.oid(new), 'cmap': cm, 'given': given,
                             'after': S.clean(R.link(new)), 'how': 'add', 'recs': recs, 'links': links, 'last_same': self_.get_last_entry() is new,
                             'tree': R.tree(new)})
            return new

        def apply_modifiers(self_):
            if not S.active or S.depth > 0:
                return S.saved['apply_modifiers'](self_)
            R = S.rec
            st = self_.circuit_structure
            before = R.tree(st)
            stim_before = R.stim_flat(st)
            R.take_copies()
            S.depth += 1
            try:
                res = S.saved['apply_modifiers'](self_)
            finally:
                S.depth -= 1
            cps = R.take_copies()
            S.circuits.append(res)
            after = R.tree(res.circuit_structure)
            src = {R.oid(n): (R.oid(o), top) for (n, o, top) in cps}
            new = []
            for i in after:
                if i in before:
                    continue
                frm, origin, inst, j, seen = i, i, src.get(i, ('', 0))[1], i, 0
                while j in src and seen < 100000:
                    j = src[j][0]
                    seen += 1
                    if frm == i and j in after:
                        frm = j
                    if j in before:
                        origin = j
                        break
                if frm == i:
                    frm = origin
                new.append({'id': i, 'from': frm, 'origin': origin, 'inst': inst})
            links = {}
            for comp, home, kids in R.walk(res.circuit_structure):
                for kdx in kids:
                    links[R.oid(kdx)] = S.clean(R.link(kdx))
            S.events.append({'ev': 'Apply', 'c': R.oid(st), 'same_structure': res.circuit_structure is st, 'new': new, 'tree': after, 'links': links,
                             'stim_before': stim_before, 'stim_after': R.stim_flat(res.circuit_structure)})
            return res

        def flatten(self_):
            if not S.active or S.depth > 0:
                return S.saved['flatten'](self_)
            R = S.rec
            st = self_.circuit_structure
            stim_before = R.stim_flat(st)
            S.depth += 1
            try:
                res = S.saved['flatten'](self_)
            finally:
                S.depth -= 1
            S.circuits.append(res)
            links = {}
            for comp, home, kids in R.walk(res.circuit_structure):
                for kdx in kids:
                    links[R.oid(kdx)] = S.clean(R.link(kdx))
            S.events.append({'ev': 'Flatten', 'c': R.oid(st), 'same_structure': res.circuit_structure is st, 'tree': R.tree(res.circuit_structure), 'links': links,
                             'stim_before': stim_before, 'stim_after': R.stim_flat(res.circuit_structure)})
            return res
        D.__init__ = init
        D.add_operation = add_operation
        D.add_sub_circuit = add_sub_circuit
        D.apply_modifiers = apply_modifiers
        D.flatten = flatten
        self.active = True

    def uninstall(self):
        for name, f in self.saved.items():
            setattr(DeclarativeCircuit, name, f)
        CircuitCompositeOperation.add = self.saved_struct_add
        self.rec.uninstall()
        self.active = False

    # ------------------------------------------------------------------ helpers
    @staticmethod
    def clean(L):
        return {'k': L['k'], 'ref': L['ref'], 'refs': L['refs'], 'rt': L['rt']}

    def describe(self, root):
        R = self.rec
        recs, links = {}, {}
        for comp, home, kids in R.walk(root):
            recs[R.oid(comp)] = {'t': 'comp', 'rep': R.rep_term(comp)}
            if home is None:
                links[R.oid(comp)] = self.clean(R.link(comp))
            for k in kids:
                links[R.oid(k)] = self.clean(R.link(k))
                if R.oid(k) not in recs:
                    recs[R.oid(k)] = R.leaf_static(k)
        return recs, links

    def adopt(self, structure):
        """A structure the trace has not seen being built (a bare CircuitCompositeOperation made by user code) is announced as
        it stands: the specification takes its content and the relations it reports as given."""
        if self.rec.known(structure) and getattr(self, '_announced', None) and id(structure) in self._announced:
            return
        if not hasattr(self, '_announced'):
            self._announced = set()
        known_by_event = any(e.get('c') == self.rec.oid(structure) and e['ev'] in ('NewCircuit', 'Adopt') for e in self.events) or \
            any(self.rec.oid(structure) in (e.get('tree') or {}) for e in self.events if e['ev'] in ('AddSub', 'CopyCirc', 'Apply', 'Adopt'))
        self._announced.add(id(structure))
        if known_by_event:
            return
        R = self.rec
        recs, links = self.describe(structure)
        links[R.oid(structure)] = self.clean(R.link(structure))
        self.events.append({'ev': 'Adopt', 'c': R.oid(structure), 'tree': R.tree(structure), 'recs': recs, 'links': links})

    def observe(self, circuit, phase, compare=None):
        """An explicit observation battery in the middle of a trace (library grids: constructed / unrolled / flattened)."""
        st = circuit.circuit_structure
        self.depth += 1
        try:
            snap = self.rec.snapshot(st, handle=circuit)
        finally:
            self.depth -= 1
        self.events.append({'ev': 'Obs', 'c': self.rec.oid(st), 'what': 'full', 'final': False, 'implicit': False, 'phase': phase,
                            'compare': compare or 0, 'snap': snap})
        return len(self.events)

    def take(self, final=True):
        """The trace recorded so far (plus one observation battery per distinct live circuit structure); resets the session."""
        self.active = False
        ev = list(self.events)
        if final:
            seen = set()
            for c in self.circuits:
                st = c.circuit_structure
                if id(st) in seen or not self.rec.known(st):
                    continue
                seen.add(id(st))
                try:
                    ev.append({'ev': 'Obs', 'c': self.rec.oid(st), 'what': 'full', 'final': True, 'implicit': False, 'snap': self.rec.snapshot(st, handle=c)})
                except Exception as e:
                    ev.append({'ev': 'Error', 'step': len(ev), 'a': 'Final', 'exc': e.__class__.__name__, 'msg': str(e)[:200], 'tb': ''})
        self.events = []
        self.circuits = []
        self.active = True
        return ev
