#!/venv/bin/python
"""Regenerates MANIFEST.json from the table below (single source of truth for what is claimed)."""
import json
import os

V = os.path.dirname(os.path.dirname(os.path.abspath(__file__)))
props = [json.loads(l) for l in open(os.path.join(V, 'properties.jsonl'))]

CLAIMS = {
    'C19': dict(
        text='TLC enumerates every pair/triple of channel identifiers, every pair of edges and every short sequence of the '
             'specification universe (Ident.tla, exhaustive) and checks the relational laws; the same universe is evaluated on the '
             'real ==/in/hash/unique_in_order and the recorded table is validated row by row by TLC against Ident.tla. Exhaustive '
             'within the stated finite universe, which is the right level for a small pure relation.',
        ref='4 (C19)', note='Trusted: TLC/SANY, CommunityModules Json, the table driver. Universe: <=4 qubits x 4 channels, <=6 edge qubits, sequences <=7.',
        technique='TLA+ spec Ident.tla; TLC exhaustive model check + TLC validation of a table recorded from the real code'),
}

NA_DEFAULT = 'check not built yet (construction in progress; see DESIGN.md section 8)'


def main():
    checks, na = [], []
    for p in props:
        c = CLAIMS.get(p['id'])
        if c is None:
            na.append({'property_id': p['id'], 'reason': NA_DEFAULT})
            continue
        checks.append({
            'property_id': p['id'],
            'quick_cmd': '/venv/bin/python harness/check.py %s --tier quick' % p['id'],
            'thorough_cmd': '/venv/bin/python harness/check.py %s --tier thorough' % p['id'],
            'evidence_file': '/verif/evidence/%s.json' % p['id'],
            'replay_cmd_template': '/venv/bin/python harness/check.py %s --replay {path}' % p['id'],
            'engine': 'tlc',
            'level_claimed': {'category': 'model_checking', 'text': c['text'], 'design_ref': c['ref']},
            'level_note': c['note'],
            'technique': c['technique'],
        })
    m = {
        'version': 1,
        'setup_cmd': '/venv/bin/python harness/setup.py',
        'hooks': {
            'guard': 'QCOCIRCUITS_VERIF',
            'enable': 'QCOCIRCUITS_VERIF=1 in the environment of the driver processes; the recorder patches the library from /verif at import time, /repo carries no hook code',
            'baseline_off_cmd': 'cd /repo && env -u QCOCIRCUITS_VERIF /venv/bin/python -m pytest -ra -q -p no:cacheprovider --timeout=900 --continue-on-collection-errors',
            'source_commits': [],
            'add_only': True,
        },
        'engines': [{'name': 'tlc', 'path': '/verif/spec', 'serves_properties': [c['property_id'] for c in checks],
                     'kind_free_text': 'explicit TLA+ specification checked with TLC (model checking, program generation, trace validation)'}],
        'checks': checks,
        'not_applicable': na,
        'notes': 'See DESIGN.md. Exit codes: 0 held, 1 violation, 2 machinery failure.',
    }
    json.dump(m, open(os.path.join(V, 'MANIFEST.json'), 'w'), indent=1)
    print('claimed', len(checks), 'not applicable', len(na))


if __name__ == '__main__':
    main()
