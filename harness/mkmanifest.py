#!/venv/bin/python
"""Regenerates MANIFEST.json from the table below (single source of truth for what is claimed)."""
import json
import os

V = os.path.dirname(os.path.dirname(os.path.abspath(__file__)))
props = [json.loads(l) for l in open(os.path.join(V, 'properties.jsonl'))]

CIRC_NOTE = ('Trusted: TLC/SANY + CommunityModules Json; the recorder harness/tracer.py (projection of real objects, copy-map from wrapped copy methods); '
             'durations multiples of 1/4. Bounds: exhaustive for the small alphabets named in the evidence, TLC -simulate beyond. Known findings are matched by signature (KNOWN_FINDINGS.json).')
CIRC_TECH = 'TLA+ spec Circuit.tla/Clauses.tla; TLC model check (MCCircuit) + TLC-generated programs (CircuitGen) replayed on the library + TLC trace validation (CircuitTrace)'


def circ(text, ref):
    return dict(text=text, ref=ref, note=CIRC_NOTE, technique=CIRC_TECH)


CLAIMS = {
    'C01': circ('Spec: relation equations, implicit rule (deepest matching node), frame rule, given-link rule as TLA+ clauses over the abstract heap. '
                'TLC model-checks that the constructive semantics satisfies the clauses on all bounded programs, generates programs (exhaustive flat / nested / channel / '
                'deep-reference alphabets, simulated long programs with overrides and registries) which run on the real library; every recorded observation is judged by TLC '
                'against the equations using the specification\'s own links, on reported and on memo-free times.', '4 (C01)'),
    'C02': circ('Listing clauses (complete by identity, attributes unchanged, contiguous blocks, causal w.r.t. specification links and w.r.t. reported relations, stable, add returns the listed object) '
                'evaluated by TLC on every recorded observation of TLC-generated programs incl. branching relation graphs, nested blocks and relations to nested operations.', '4 (C02)'),
    'C04': circ('Span clause (reported duration of every circuit and block = latest end - earliest start over its recorded contents; empty = 0) and the followers clause, '
                'evaluated by TLC on every recorded observation; model-checked on the specification (NTimesT, SnapOK).', '4 (C04)'),
    'C05': circ('Copy actions of the specification (CopyRecords/IsoUnder); for every copy made by nesting, explicit copy or unrolling the recorded copy map must be a bijection onto the new objects and every '
                'copied object must report the attributes / repetition term / re-pointed relation of its source (all 26 operation classes enumerated from the code, every relation type and position); '
                'later observations of original and copy are judged independently (independence).', '4 (C05)'),
    'C06': circ('Unroll in the specification (UnrollBlock) with TLC-checked action properties (counts multiply, counts reset, idempotent, others untouched, n*T); on the real library the recorded '
                'apply_modifiers events are checked for counts = product of enclosing counts, untouched originals, idempotence of a second application, reset counts, and the chain rule '
                '(each copy starts at the latest end of the relation leaves of the copy before it) on memo-free times.', '4 (C06)'),
    'C07': circ('Index clauses (circuit-level 0..N-1 and per-qubit 0..n_q-1 in listing order, filters by qubit and by tag, tags partition, export record order, monotone in time for implicit overlap-free programs) '
                'evaluated by TLC on recorded observations of generated programs with measurements on interleaved qubits, tags, nested registries and unrolling, with and without earlier index reads.', '4 (C07)'),
    'C11': circ('Flatten post-conditions (same leaf objects, no block left, in place, second flatten changes nothing) checked by TLC on recorded flatten events of generated nested programs and a directed family; '
                'observations after flattening are judged by the listing / equation clauses.', '4 (C11)'),
    'C03': circ('History clauses: (a) every reported time equals a memo-free re-evaluation taken in the same snapshot (C03.memo), (b) twin runs: every TLC-generated history with '
                'intermediate observations (battery, compact/non-compact drawing, Stim export, listing) is executed again in a fresh process with those observations erased and TLC '
                '(ErasureTrace) compares the final batteries of every circuit field by field; the specification\'s observation actions leave the abstract state unchanged (Independence).', '4 (C03)'),
    'C08': circ('Export.tla defines the Stim image of a circuit (gate table of 15 entries, five detector target shapes, blocks repeated their count, unsupported kinds omitted); every recorded '
                'observation carries the real to_stim output read by an independent reader (repeats expanded, fused targets split) and TLC compares it instruction by instruction with the image of the '
                'specification\'s heap in listing order; unrolling events carry the export before and after (same multiset, same number of measurements). All operation classes are enumerated from the code.', '4 (C08)'),
    'C15': circ('Export.tla defines the OpenQL image (13-entry gate table, cz + barrier + two phase updates, integer waits, blocks at their position repeated their count); to_openql runs against recording doubles of '
                'the platform objects (the double refuses duplicate kernel names like the real Program, confirmed once against real OpenQL), the linearised call sequence is compared by TLC with the image; two known '
                'deviations are named operators (sub-programs first, duplicate kernel).', '4 (C15)'),
    'C09': dict(text='RepCode.tla is the classical protocol machine (herald, prepare, accumulate parity without ancilla reset, refocusing flips in every cycle but the last, final data); TLC runs it for every instance of the '
                     'bounded universe and checks closed forms (m_c = m_(c-2), final data); the real constructors\' exported circuits (as constructed, unrolled, flattened) are executed by Stim without noise and TLC compares '
                     'the record block by block with the machine, the detector/observable counts with (d-1)(cycles+1)/1, and determinism over 5 shots + detector_error_model().',
                ref='4 (C09)', note='Trusted: TLC/SANY, Json, Stim\'s noiseless sampler and parser, the table driver. Bounds: d<=3 (quick) / <=5 (thorough), cycles <=4 / <=8, all or sampled data states, requested ancilla states, sub-chains of the three layouts.',
                technique='TLA+ spec RepCode.tla; TLC model check of the protocol machine + TLC validation of records sampled from the exported circuits'),
    'C10': dict(text='Occupancy.tla: for every recorded library structure (main / simplified / calibration constructors, as constructed and unrolled) TLC solves the relation equations itself along a checked topological order '
                     'for EVERY configuration of a duration grid and evaluates NoOverlap / barrier separation; the fold is bound to the code by comparing times under sampled configurations; a predicted overlap is reported only '
                     'after it is reproduced on the real code; structures on which fold and code disagree are decided on times recorded from the code for the whole grid.',
                ref='4 (C10)', note='Trusted: TLC/SANY, Json, recorder. The property quantifies over all positive durations; the check covers a finite grid ({0.5,1,2,3}^4 quick, 7 values^4 thorough) realising the orderings of the four durations.',
                technique='TLA+ spec Occupancy.tla; TLC sweep of the configuration grid over structures recorded from the real constructors, bound by sampled real times'),
    'C14': dict(text='Noise.tla defines the dressing on instruction sequences (noisy measurement per target with the assignment error selected through the index map; blocks split at TICK inclusive; per qubit an idle channel '
                     'before and after each block selected by the block\'s longest configured operation class, measurements included, and the qubit\'s T1/T2); TLC checks Strip(Dress(c)) = c on all sequences <=4 (quick) / <=5 '
                     'over a small alphabet under three settings tables and validates outputs of the real apply_noise (exporter outputs + random sequences x 3 settings / index maps) for strip, placement, measurement and selection.',
                ref='4 (C14), 5', note='Trusted: TLC/SANY, Json, stim API for exact arguments. The exponential formula itself is evaluated by the harness for the parameter selection the specification makes (TLA+ has no reals) and range-checked.',
                technique='TLA+ spec Noise.tla; TLC model check + TLC validation of classified outputs of the real noise dresser; closed form evaluated by a numeric shim'),
    'C18': circ('Drawing events: the real plot_circuit runs (Agg) with deterministic channel orders / label maps (incl. an unknown channel) in compact and non-compact mode inside and outside duration overrides; the description it hands to '
                'the renderer and the rectilinear transforms of its components are captured and TLC checks rows, labels, width, rejection, and that components sit at the specification\'s start times (under the drawing\'s durations) '
                'on the rows of their qubits (multiset match); purity is decided by twin runs (history with the drawings erased, TLC ErasureTrace) and by the memo clause; all operation classes are drawn.', '4 (C18), 5'),
    'C12': dict(text='IndexKernel.tla states block lengths, starts, categories, calibration offsets, slicing and the estimate; TLC checks tiling / disjointness / cover / translation / estimate-inverse for every '
                     'list of distinct round counts in the bounded universe (exhaustive) and validates, one implementation test per specification state, every getter of the real kernels.',
                ref='4 (C12)', note='Trusted: TLC/SANY, Json module, table driver. Universe: lists of <=3 (quick) / <=5 (thorough) distinct counts from 0..3 / 0..5, both heralded settings, repetitions <=2 / <=3, plus 40 random larger descriptions.',
                technique='TLA+ spec IndexKernel.tla; TLC exhaustive model check + TLC validation of a table recorded from the real kernels (advisory, beyond the bound: inductive invariant of KernelInductive.tla discharged by Apalache, with TLC trace validation of the recorded kernels against that action system)'),
    'C13': dict(text='The same IndexKernel.tla arrays are compared by TLC with BOTH the real experiment kernel getters and the tagged per-ancilla acquisition indices of the real multi-round circuit, '
                     'for every round list in the bounded universe and code distances 2..3 (quick) / 2..4 (thorough); the documented 0-round difference is written into the clause.',
                ref='4 (C13)', note='Trusted: TLC/SANY, Json module, table driver; circuits are built by the real constructor (apply_modifiers + flatten per block).',
                technique='TLA+ spec IndexKernel.tla; TLC validation of recorded circuit indices and kernel indices against the specification'),
    'C16': dict(text='Surface17.tla owns the device tables and defines Accept / NeedsPark; TLC checks design theorems over all gate sets of <=3 (quick) / <=4 (thorough) edges and validates a table of the real '
                     'get_mutually_allowed (two orders) / get_requires_parking verdicts covering every subset of <=2 / <=4 edges, the code\'s device tables, and generator runs (each gate once, only accepted steps).',
                ref='4 (C16)', note='Trusted: TLC/SANY, Json module, table driver. Exhaustive within the stated subset size.',
                technique='TLA+ spec Surface17.tla; TLC exhaustive model check + TLC validation of a table recorded from the real code'),
    'C17': dict(text='Layouts are behaviours: each recorded layer (gates, parks) of the three shipped repetition layouts and of descriptions derived by the real from_connectivity for contiguous sub-chains, small subsets '
                     'and random subsets/orderings is validated by TLC against Surface17.tla (device edges, disjoint gates, no park-and-gate, required parking, each parity edge once, derived = filtered base, index map bijective).',
                ref='4 (C17)', note='Trusted: TLC/SANY, Json module, table driver.',
                technique='TLA+ spec Surface17.tla; TLC validation of recorded layouts / derived descriptions as behaviours'),
    'C19': dict(
        text='TLC enumerates every pair/triple of channel identifiers, every pair of edges and every short sequence of the '
             'specification universe (Ident.tla, exhaustive) and checks the relational laws; the same universe is evaluated on the '
             'real ==/in/hash/unique_in_order and the recorded table is validated row by row by TLC against Ident.tla. Exhaustive '
             'within the stated finite universe, which is the right level for a small pure relation.',
        ref='4 (C19)', note='Trusted: TLC/SANY, CommunityModules Json, the table driver. Universe: <=4 qubits x 4 channels, <=6 edge qubits, sequences <=7.',
        technique='TLA+ spec Ident.tla; TLC exhaustive model check + TLC validation of a table recorded from the real code'),
}

NA_DEFAULT = 'check not built yet (construction in progress; see DESIGN.md section 8)'


def main():
    checks, na = [], []
    for p in props:
        c = CLAIMS.get(p['id'])
        if c is None:
            na.append({'property_id': p['id'], 'reason': NA_DEFAULT})
            continue
        checks.append({
            'property_id': p['id'],
            'quick_cmd': '/venv/bin/python harness/check.py %s --tier quick' % p['id'],
            'thorough_cmd': '/venv/bin/python harness/check.py %s --tier thorough' % p['id'],
            'evidence_file': '/verif/evidence/%s.json' % p['id'],
            'replay_cmd_template': '/venv/bin/python harness/check.py %s --replay {path}' % p['id'],
            'engine': 'tlc',
            'level_claimed': {'category': 'model_checking', 'text': c['text'], 'design_ref': c['ref']},
            'level_note': c['note'],
            'technique': c['technique'],
        })
    m = {
        'version': 1,
        'setup_cmd': '/venv/bin/python harness/setup.py',
        'hooks': {
            'guard': 'QCOCIRCUITS_VERIF',
            'enable': 'QCOCIRCUITS_VERIF=1 in the environment of the driver processes; the recorder patches the library from /verif at import time, /repo carries no hook code',
            'baseline_off_cmd': 'cd /repo && env -u QCOCIRCUITS_VERIF /venv/bin/python -m pytest -ra -q -p no:cacheprovider --timeout=900 --continue-on-collection-errors',
            'source_commits': [],
            'add_only': True,
        },
        'engines': [{'name': 'tlc', 'path': '/verif/spec', 'serves_properties': [c['property_id'] for c in checks],
                     'kind_free_text': 'explicit TLA+ specification checked with TLC (model checking, program generation, trace validation)'}],
        'checks': checks,
        'not_applicable': na,
        'notes': 'See DESIGN.md. Exit codes: 0 held, 1 violation, 2 machinery failure.',
    }
    json.dump(m, open(os.path.join(V, 'MANIFEST.json'), 'w'), indent=1)
    print('claimed', len(checks), 'not applicable', len(na))


if __name__ == '__main__':
    main()
