"""Observation kinds other than the full battery: they are part of the histories of C03/C18 (an observation must not
change what later observations report)."""
import warnings


def handle(S):
    from qce_circuit.language.declarative_circuit import DeclarativeCircuit
    h = DeclarativeCircuit()
    h._structure = S
    return h


def observe(machine, st, S, what):
    warnings.filterwarnings('ignore')
    out = {}
    if what in ('plot', 'plotnc'):
        import matplotlib
        matplotlib.use('Agg')
        import matplotlib.pyplot as plt
        from qce_circuit.visualization.visualize_circuit.display_circuit import plot_circuit
        try:
            fig, ax = plot_circuit(handle(S), compact_visualization=(what == 'plot'))
            out['ok'] = True
            plt.close(fig)
        finally:
            plt.close('all')
    elif what == 'stim':
        from qce_circuit.addon_stim import to_stim
        out['text_len'] = len(str(to_stim(handle(S))))
    elif what == 'duration':
        out['duration'] = S.duration
    elif what == 'ops':
        out['n'] = len(S.decomposed_operations())
    else:
        raise ValueError(what)
    return out
