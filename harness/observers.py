"""Observation kinds other than the full battery: they are part of the histories of C03/C18 (an observation must not
change what later observations report)."""
import warnings


def handle(S, machine=None):
    from qce_circuit.language.declarative_circuit import DeclarativeCircuit
    if machine is not None:
        h = machine.handle_of(S)
        if h is not None:
            return h
    h = DeclarativeCircuit()
    h._structure = S
    return h


def observe(machine, st, S, what):
    warnings.filterwarnings('ignore')
    out = {}
    if what in ('plot', 'plotnc'):
        import matplotlib
        matplotlib.use('Agg')
        import matplotlib.pyplot as plt
        from qce_circuit.visualization.visualize_circuit.display_circuit import plot_circuit
        try:
            fig, ax = plot_circuit(handle(S, machine), compact_visualization=(what == 'plot'))
            out['ok'] = True
            plt.close(fig)
        finally:
            plt.close('all')
    elif what in ('draw', 'drawnc'):
        out.update(draw(machine, S, compact=(what == 'draw'), forced_order=st.get('order')))
    elif what == 'stim':
        from qce_circuit.addon_stim import to_stim
        out['text_len'] = len(str(to_stim(handle(S, machine))))
    elif what == 'duration':
        out['duration'] = S.duration
    elif what == 'ops':
        out['n'] = len(handle(S, machine).operations)
    else:
        raise ValueError(what)
    return out


def draw(machine, S, compact, forced_order=None):
    """plot_circuit with a channel order / label map chosen deterministically from the circuit; the description the real
    plot path hands to the renderer (inside its own duration override) is captured together with the rectilinear
    transforms of its draw components."""
    import random
    import matplotlib
    matplotlib.use('Agg')
    import matplotlib.pyplot as plt
    from qce_circuit.visualization.visualize_circuit import display_circuit as DC
    from tracer import q
    R = machine.rec
    h = handle(S, machine)
    occupied = []
    for c in h.occupied_qubit_channels:
        if c.id not in occupied:
            occupied.append(c.id)
    rnd = random.Random(len(machine.events) * 7919 + len(occupied) * 31 + sum(occupied))
    order = rnd.sample(occupied, rnd.randint(0, len(occupied))) if occupied else []
    mode = rnd.randint(0, 5)
    if mode == 0:
        order = order + [97]                       # a channel the circuit does not occupy: must be rejected
    labels = None
    if mode in (1, 2) and occupied:
        labels = {ch: 'L%d' % ch for ch in rnd.sample(occupied, rnd.randint(1, len(occupied)))}
    if forced_order is not None:                   # a directed program names the channel order itself
        order, mode, labels = list(forced_order), 9, None
    cap = {}
    orig = DC.plot_circuit_description

    def spy(description, **kw):
        cap['rows'] = [int(x) for x in description.channel_indices]
        cap['label_map'] = [[int(k), str(v)] for k, v in sorted(description.channel_label_map.items())]
        cap['width'] = q(description.channel_width)
        comps = description.get_operation_draw_components()
        cap['ops'] = [R.oid(o) for o in description.operations]
        cap['comps'] = []
        for comp in comps:
            t = comp.rectilinear_transform
            cap['comps'].append({'x': q(t.origin_pivot.x), 'w': q(t.width), 'y10': int(round(t.origin_pivot.y * 10)), 'h10': int(round(t.height * 10))})
        # what the circuit itself reports at this moment (same override, same memo state): the drawing is judged against the
        # specification's schedule; if it only agrees with these reported values, the report is stale (C03), not the drawing
        cap['reported'] = [[R.oid(o), q(o.start_time), q(o.end_time)] for o in description.operations]
        return orig(description=description, **kw)
    DC.plot_circuit_description = spy
    res = {'compact': bool(compact), 'order': order, 'labels': [[k, v] for k, v in sorted((labels or {}).items())], 'has_labels': labels is not None,
           'occupied': occupied, 'rows': [], 'label_map': [], 'width': 0, 'ops': [], 'comps': [], 'reported': []}
    try:
        fig, ax = DC.plot_circuit(h, channel_order=list(order), channel_map=labels, compact_visualization=compact)
        plt.close(fig)
        res['result'] = 'ok'
        res.update(cap)
    except ValueError as e:
        res['result'] = 'rejected' if 'specific_order' in str(e) else 'error:ValueError:' + str(e)[:100]
    except Exception as e:
        res['result'] = 'error:' + e.__class__.__name__ + ':' + str(e)[:100]
    finally:
        DC.plot_circuit_description = orig
        plt.close('all')
    return {'draw': res}
