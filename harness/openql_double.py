"""Recording doubles for the OpenQL platform objects (C15): the exporter's calls are logged and linearised in program
order (kernels and sub-programs run in the order in which they were added).  Like the real Program, the double refuses
a second kernel with a name it already holds."""


class DuplicateKernel(RuntimeError):
    pass


class RecKernel:
    def __init__(self, name):
        self.name = name
        self.ops = []

    @staticmethod
    def _qs(q):
        return [int(x) for x in q] if isinstance(q, (list, tuple)) else [int(q)]

    def gate(self, name, qubits, *a, **k):
        self.ops.append({'name': str(name), 'targets': [['q', x] for x in self._qs(qubits)], 'args': []})

    def cz(self, a, b):
        self.ops.append({'name': 'cz', 'targets': [['q', int(a)], ['q', int(b)]], 'args': []})

    def barrier(self, qubits):
        self.ops.append({'name': 'barrier', 'targets': [['q', x] for x in self._qs(qubits)], 'args': []})

    def wait(self, qubits, duration):
        self.ops.append({'name': 'wait', 'targets': [['q', x] for x in self._qs(qubits)], 'args': [int(duration)]})


class RecProgram:
    permissive = False          # True: accept duplicate kernel names (to see what the exporter hands over when nothing refuses it)

    def __init__(self, name):
        self.name = name
        self.kernels = []

    def _add(self, k):
        if not RecProgram.permissive and any(x.name == k.name for x in self.kernels):
            raise DuplicateKernel('duplicate kernel name: %s' % k.name)
        self.kernels.append(k)

    def add_kernel(self, k):
        self._add(k)

    def add_program(self, p):
        for k in p.kernels:
            self._add(k)

    def flat(self):
        return [op for k in self.kernels for op in k.ops]

    def names(self):
        return [self.name] + [k.name for k in self.kernels]


def export(handle):
    """to_openql with the doubles installed; returns {status, flat, names}."""
    from qce_circuit.addon_openql.platform_manager import PlatformManager
    from qce_circuit.addon_openql.factory_manager import to_openql
    o1, o2 = PlatformManager.__dict__['construct_program'], PlatformManager.__dict__['construct_kernel']
    PlatformManager.construct_program = classmethod(lambda cls, name: RecProgram(name))
    PlatformManager.construct_kernel = classmethod(lambda cls, name: RecKernel(name))
    try:
        p = to_openql(handle)
        p2 = to_openql(handle)
        return {'status': 'ok', 'flat': p.flat(), 'names': p.names(), 'same_twice': p.flat() == p2.flat() and p.names() == p2.names()}
    except DuplicateKernel as e:
        # the export is refused (known finding S8b). What the exporter hands over is still observable: the same export into a
        # program double that accepts duplicate names (the instruction stream is judged against the image; 'flat' stays empty
        # if that second export fails for any reason)
        flat = []
        try:
            RecProgram.permissive = True
            flat = to_openql(handle).flat()
        except Exception:                                            # noqa: BLE001
            flat = []
        finally:
            RecProgram.permissive = False
        return {'status': 'duplicate-kernel', 'flat': flat, 'names': [], 'same_twice': True, 'msg': str(e)[:120]}
    except Exception as e:
        return {'status': 'error:' + e.__class__.__name__ + ':' + str(e)[:120], 'flat': [], 'names': [], 'same_twice': True}
    finally:
        PlatformManager.construct_program = o1
        PlatformManager.construct_kernel = o2
