import json
"""Builder for hand-directed program families in the step format of spec/CircuitGen.tla (same identifiers discipline:
fresh "n<k>" in creation order; a copy gets identifiers for its whole subtree in pre-order).  Used sparingly, for shapes
deeper than TLC's bounded search reaches; the programs are judged by the same trace specification."""
NOLINK = {'k': 'none', 'ref': '', 'refs': [], 'rt': ''}


def leaf(kind, qs, chans, dur, tag='', extra=None):
    return {'kind': kind, 'qs': list(qs), 'chans': [list(c) for c in chans], 'dur': list(dur), 'tag': tag, 'extra': extra or []}


def X(q):
    return leaf('Rx180', [q], [[q, 'MICROWAVE']], ['global', 'MW'])


def W(q, d, ch='ALL'):
    return leaf('Wait', [q], [[q, ch]], ['fixed', d])


def M(q, tag=''):
    return leaf('DispersiveMeasure', [q], [[q, 'READOUT']], ['global', 'RO'], tag)


class Prog:
    def __init__(self):
        self.steps = []
        self.n = 0
        self.kids = {}       # circuit/comp id -> list of kid ids
        self.is_comp = set()

    def fresh(self):
        self.n += 1
        return 'n%d' % self.n

    def _step(self, **kw):
        d = {'a': '', 'c': '', 'id': '', 's': '', 'm': {}, 'link': dict(NOLINK), 'rep': ['fixed', 1], 'key': '', 'val': 0, 'what': '', 'fm': []}
        d.update(kw)
        self.steps.append(d)
        return d

    def new(self, rep=1, link=None):
        i = self.fresh()
        self.kids[i] = []
        self.is_comp.add(i)
        self._step(a='NewCircuit', c=i, id=i, rep=['fixed', rep] if isinstance(rep, int) else list(rep), link=link or dict(NOLINK))
        return i

    def add(self, c, m, ref=None, rt='FB'):
        i = self.fresh()
        self.kids[c].append(i)
        link = {'k': 'one', 'ref': ref, 'refs': [], 'rt': rt} if ref else dict(NOLINK)
        self._step(a='AddOp', c=c, id=i, m=m, link=link)
        return i

    def _subtree(self, r):
        out = [r]
        if r in self.is_comp:
            for k in self.kids[r]:
                out += self._subtree(k)
        return out

    def _copy(self, s):
        src = self._subtree(s)
        f = {i: self.fresh() for i in src}
        for i in src:
            if i in self.is_comp:
                self.is_comp.add(f[i])
                self.kids[f[i]] = [f[k] for k in self.kids[i]]
        return f, [[i, f[i]] for i in src]

    def add_sub(self, c, s, what=''):
        f, fm = self._copy(s)
        self.kids[c].append(f[s])
        self._step(a='AddSub', c=c, id=f[s], s=s, fm=fm, what=what)
        return f[s]

    def copy(self, s):
        f, fm = self._copy(s)
        self._step(a='CopyCirc', c=f[s], id=f[s], s=s, fm=fm)
        return f[s]

    def mask(self, c, masks):
        """replace_operation on the flat circuit c: a new circuit; masks = list of dicts {t, kind, q, q2, chan}."""
        new = self.fresh()
        self.kids[new] = []
        self.is_comp.add(new)
        fm = []
        for k in self.kids[c]:
            n = self.fresh()
            self.kids[new].append(n)
            fm.append([k, n])
        self._step(a='Mask', c=c, id=new, what=json.dumps(masks), fm=fm)
        return new

    def act(self, a, c='', **kw):
        self._step(a=a, c=c, **kw)

    def obs(self, c):
        self._step(a='Obs', c=c, what='full')
