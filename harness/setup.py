#!/venv/bin/python
"""setup_cmd: verify the tool chain is reachable offline and that every specification module parses."""
import os
import subprocess
import sys

V = os.path.dirname(os.path.dirname(os.path.abspath(__file__)))
CP = '/opt/veriftools/tla/tla2tools.jar:/opt/veriftools/tla/CommunityModules-deps.jar'
bad = 0
for f in sorted(os.listdir(os.path.join(V, 'spec'))):
    if f.endswith('.tla'):
        p = subprocess.run(['java', '-cp', CP, 'tla2sany.SANY', f], cwd=os.path.join(V, 'spec'), capture_output=True, text=True)
        ok = p.returncode == 0 and 'error' not in p.stdout.lower().replace('errors: 0', '')
        print(('ok   ' if ok else 'FAIL ') + f)
        if not ok:
            print(p.stdout[-1500:])
            bad += 1
p = subprocess.run(['/venv/bin/python', '-c', 'import qce_circuit, stim; print(qce_circuit.__file__)'], capture_output=True, text=True)
print(p.stdout.strip() or p.stderr[-500:])
bad += p.returncode != 0
sys.exit(1 if bad else 0)
