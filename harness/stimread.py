"""Independent reader of Stim circuit text (str(stim.Circuit)): instruction name, arguments, targets, REPEAT nesting.
Repeats are expanded here (not by stim.Circuit.flattened(), which folds SHIFT_COORDS into detector coordinates)."""
import re

_INS = re.compile(r'^([A-Z_0-9]+)(?:\(([^)]*)\))?\s*(.*)$')


def parse(text):
    """-> nested list: instructions are dicts {name, args, targets}; blocks are {'repeat': n, 'body': [...]}."""
    stack = [[]]
    counts = []
    for raw in text.splitlines():
        line = raw.strip()
        if not line or line.startswith('#'):
            continue
        if line.startswith('REPEAT'):
            n = int(line.split()[1])
            counts.append(n)
            stack.append([])
            continue
        if line == '}':
            body = stack.pop()
            stack[-1].append({'repeat': counts.pop(), 'body': body})
            continue
        m = _INS.match(line)
        if not m:
            raise ValueError('unreadable stim line: %r' % raw)
        name, args, targets = m.group(1), m.group(2), m.group(3)
        a = [float(x) for x in args.split(',')] if args else []
        t = []
        for tok in targets.split():
            if tok.startswith('rec['):
                t.append(['rec', int(tok[4:-1])])
            elif tok.startswith('!'):
                t.append(['inv', int(tok[1:])])
            else:
                t.append(int(tok))
        stack[-1].append({'name': name, 'args': a, 'targets': t})
    return stack[0]


def flat(tree):
    out = []
    for x in tree:
        if 'repeat' in x:
            body = flat(x['body'])
            for _ in range(x['repeat']):
                out.extend(body)
        else:
            out.append(x)
    return out


def split_targets(ins_list, arity):
    """Split fused targets: a one-qubit gate on k targets becomes k instructions, a two-qubit gate on 2k targets k."""
    out = []
    for ins in ins_list:
        n = arity(ins['name'])
        if n and len(ins['targets']) > n:
            for i in range(0, len(ins['targets']), n):
                out.append({'name': ins['name'], 'args': ins['args'], 'targets': ins['targets'][i:i + n]})
        else:
            out.append(ins)
    return out
