"""Recorder for the real library (runs inside the driver process, QCOCIRCUITS_VERIF=1).

Projects circuits onto the abstract state of spec/Circuit.tla: objects get small string identifiers in order of
first appearance, times are integers in quarter units, relations are link records.  Nothing here edits /repo;
the only patching is wrapping the hand-written `copy` methods to learn which object was copied from which.
"""
import os

assert os.environ.get('QCOCIRCUITS_VERIF') == '1', 'recorder is active only under QCOCIRCUITS_VERIF=1'

from qce_circuit.structure.intrf_circuit_operation import (  # noqa: E402
    ICircuitOperation, RelationLink, MultiRelationLink, RelationType)
from qce_circuit.structure.intrf_circuit_operation_composite import CircuitCompositeOperation  # noqa: E402
from qce_circuit.structure.registry_duration import (  # noqa: E402
    FixedDurationStrategy, GlobalDurationStrategy, RegistryDurationStrategy, GlobalRegistryKey)
from qce_circuit.structure.registry_repetition import FixedRepetitionStrategy, RegistryRepetitionStrategy  # noqa: E402
from qce_circuit.structure.intrf_acquisition_operation import IAcquisitionOperation  # noqa: E402

SCALE = 4
NONE_INT = -999999          # integer stand-in for None in optional integer fields (TLC compares like with like)
RT = {'FOLLOWED_BY': 'FB', 'JOINED_START': 'JS', 'JOINED_END': 'JE'}
GK = {GlobalRegistryKey.READOUT: 'RO', GlobalRegistryKey.MICROWAVE: 'MW', GlobalRegistryKey.FLUX: 'FL',
      GlobalRegistryKey.RESET: 'RST'}
NOLINK = {'k': 'none', 'ref': '', 'refs': [], 'rt': ''}


def q(x):
    """Real time -> integer quarter units; a value off the grid is reported as a string (never equal to an integer)."""
    y = x * SCALE
    r = round(y)
    if abs(y - r) < 1e-6:
        return int(r)
    return 'offgrid:%r' % x


def all_subclasses(cls):
    out, todo = [], [cls]
    while todo:
        c = todo.pop()
        for s in c.__subclasses__():
            if s not in out:
                out.append(s)
                todo.append(s)
    return out


class Recorder:
    def __init__(self):
        self.ids = {}
        self.keep = []
        self.copies = []          # (new obj, src obj, top-level call number)
        self.stack = []
        self.ncall = 0
        self.installed = []

    # ------------------------------------------------------------ identities
    def oid(self, obj):
        if obj is None:
            return ''
        k = id(obj)
        if k not in self.ids:
            self.ids[k] = 'o%d' % (len(self.ids) + 1)
            self.keep.append(obj)
        return self.ids[k]

    def known(self, obj):
        return id(obj) in self.ids

    # ---------------------------------------------------------- copy wrappers
    def install(self):
        import qce_circuit.structure.circuit_operations  # noqa: F401
        import qce_circuit.addon_stim.circuit_operations  # noqa: F401
        try:
            import qce_circuit.library.repetition_code.circuit_components  # noqa: F401
        except Exception:
            pass
        n = 0
        for cls in all_subclasses(ICircuitOperation):
            if 'copy' in cls.__dict__ and not getattr(cls.__dict__['copy'], '_verif', False):
                self._wrap(cls)
                n += 1
        return n

    def _wrap(self, cls):
        orig = cls.__dict__['copy']
        rec = self

        def copy(self_, *a, **k):
            rec.ncall += 1
            rec.stack.append(rec.ncall)
            try:
                res = orig(self_, *a, **k)
            finally:
                top = rec.stack[0]
                rec.stack.pop()
            rec.copies.append((res, self_, top))
            rec.keep.append(res)
            rec.keep.append(self_)
            return res
        copy._verif = True
        copy.__wrapped__ = orig
        cls.copy = copy
        self.installed.append((cls, orig))

    def uninstall(self):
        for cls, orig in self.installed:
            cls.copy = orig
        self.installed = []

    def take_copies(self):
        c = self.copies
        self.copies = []
        return c

    # ------------------------------------------------------------ projection
    def link(self, obj):
        L = obj.relation_link
        if isinstance(L, MultiRelationLink):
            refs = [self.oid(r) for r in L._reference_nodes]
            if not refs:
                return dict(NOLINK)
            return {'k': 'multi', 'ref': '', 'refs': refs, 'rt': RT[L._relation_type.name],
                    'group': L._relation_to_group.name}
        ref = L._reference_node if isinstance(L, RelationLink) else L.reference_node
        if ref is None:
            return dict(NOLINK)
        return {'k': 'one', 'ref': self.oid(ref), 'refs': [], 'rt': RT[L.relation_type.name]}

    @staticmethod
    def dur_term(obj):
        s = getattr(obj, 'duration_strategy', None)
        if isinstance(s, FixedDurationStrategy):
            return ['fixed', q(s.duration)]
        if isinstance(s, GlobalDurationStrategy):
            return ['global', GK[s.key]]
        if isinstance(s, RegistryDurationStrategy):
            return ['reg', s.registry_key]
        if s is not None and s.__class__.__name__ == 'GlobalDecouplingWaitDurationStrategy':
            return ['decouple']
        return ['other', s.__class__.__name__]

    @staticmethod
    def rep_term(obj):
        s = obj.repetition_strategy
        if isinstance(s, FixedRepetitionStrategy):
            return ['fixed', s.repetitions]
        if isinstance(s, RegistryRepetitionStrategy):
            return ['reg', s.registry_key]
        return ['other', s.__class__.__name__]

    @staticmethod
    def qubits(obj):
        for names in (('qubit_index',), ('control_qubit_index', 'target_qubit_index')):
            if all(hasattr(obj, n) for n in names):
                return [getattr(obj, n) for n in names]
        if hasattr(obj, 'qubit_indices'):
            return list(obj.qubit_indices)
        return []

    def leaf_static(self, o):
        """Attributes that do not depend on the schedule (what a copy must preserve)."""
        d = {'t': 'op', 'kind': o.__class__.__name__, 'qs': self.qubits(o),
             'chans': [[c.id, c.channel.name] for c in o.channel_identifiers],
             'dur': self.dur_term(o), 'tag': getattr(o, 'acquisition_tag', '') or ''}
        extra = {}
        for f in ('last_acquisition_index', 'main_target', 'secondary_target', 'reference_offset', 'secondary_offset',
                  'time_shift', 'space_shift'):
            if hasattr(o, f):
                v = getattr(o, f)
                extra[f] = NONE_INT if v is None else int(v)
        d['extra'] = [[k, extra[k]] for k in sorted(extra)]
        return d

    # pure structure walk (no hand-over, no time query): which objects are in the structure, and where
    def walk(self, S):
        out = []

        def rec_(comp, home):
            kids = []
            for node in comp._circuit_graph.get_node_iterator():
                kids.append(node.operation)
            out.append((comp, home, kids))
            for kdx in kids:
                if isinstance(kdx, CircuitCompositeOperation):
                    rec_(kdx, comp)
        rec_(S, None)
        return out

    def tree(self, S):
        """{id: {home, kids}} for every object of the structure (pure walk)."""
        t = {}
        for comp, home, kids in self.walk(S):
            t[self.oid(comp)] = {'home': self.oid(home), 'kids': [self.oid(k) for k in kids], 't': 'comp'}
            for k in kids:
                if not isinstance(k, CircuitCompositeOperation):
                    t[self.oid(k)] = {'home': self.oid(comp), 'kids': [], 't': 'op'}
        return t

    # ---------------------------------------------------------------- snapshot
    def snapshot(self, S, cold=True, acq=True, handle=None):
        """The observation battery of one circuit, through the public observers of the handle the program holds
        (DeclarativeCircuit.operations / get_acquisition_indices / exporters); nested blocks through the structure."""
        self._handle = handle if (handle is not None and handle.circuit_structure is S) else None
        if self._handle is not None:
            ops = self._handle.operations
            ops2 = self._handle.operations
        else:
            ops = S.decomposed_operations()
            ops2 = S.decomposed_operations()
        comps = [S] + list(S.get_sub_composite_operations())
        members = {}
        for c in comps:
            members[id(c)] = [id(o) for o in c.decomposed_operations()]
        subs = {id(c): [id(x) for x in c.get_sub_composite_operations()] for c in comps}
        objs = {}
        for pos, o in enumerate(ops):
            homes = [c for c in comps if id(o) in members[id(c)]]
            home = min(homes, key=lambda c: len(members[id(c)])) if homes else None
            # innermost: among blocks containing it, the one with the fewest members; ties (identical member
            # lists, a block whose only content is a block) are resolved by nesting
            if home is not None:
                cands = [c for c in homes if len(members[id(c)]) == len(members[id(home)])]
                home = max(cands, key=lambda c: sum(1 for d in cands if id(c) in subs[id(d)]))
            d = self.leaf_static(o)
            d.update({'id': self.oid(o), 'pos': pos + 1, 'home': self.oid(home), 'rlink': self.link(o),
                      'dur_v': q(o.duration), 'start': q(o.start_time), 'end': q(o.end_time)})
            if acq and isinstance(o, IAcquisitionOperation):
                d['acq_q'] = int(o.acquisition_index)
                d['acq_c'] = int(o.circuit_level_acquisition_index)
            else:
                d['acq_q'] = -2
                d['acq_c'] = -2
            objs[d['id']] = d
        cs = {}
        for c in comps:
            parents = [p for p in comps if id(c) in subs[id(p)]]
            home = min(parents, key=lambda p: len(subs[id(p)])) if parents else None
            cs[self.oid(c)] = {'id': self.oid(c), 't': 'comp', 'home': self.oid(home), 'rep': self.rep_term(c),
                               'nrep': int(c.nr_of_repetitions), 'rlink': self.link(c),
                               'members': [self.ids[m] for m in members[id(c)]],
                               'dur_v': q(self.dur_of(c, S)), 'start': q(c.start_time), 'end': q(c.end_time)}
        snap = {'top': self.oid(S), 'order': [self.oid(o) for o in ops], 'order2': [self.oid(o) for o in ops2],
                'leaves': objs, 'comps': cs}
        if acq:
            snap.update(self.acq_filters(S, ops))
        snap['stim'] = self.stim_flat(S)
        snap['openql'] = self.openql_flat(S)
        if cold:
            self.cold(S, ops, comps, snap)
        return snap

    def dur_of(self, c, S):
        """Duration of block c; the observed circuit itself answers through the handle the program holds on it."""
        h = getattr(self, '_handle', None)
        if c is S and h is not None and h.circuit_structure is S:
            return h.duration
        return c.duration

    def stim_flat(self, S):
        """to_stim of a handle on S, read by the independent reader, repeats expanded, fused targets split."""
        from qce_circuit.language.declarative_circuit import DeclarativeCircuit
        if any(not isinstance(x, int) for _c, _h, kids in self.walk(S) for k in kids for x in self.qubits(k)):
            return {'status': 'none', 'flat': []}            # Stim addresses qubits by integer; circuits on named qubits are not exportable
        try:
            from qce_circuit.addon_stim import to_stim
            import stimread
            h = getattr(self, '_handle', None)
            if h is None or h.circuit_structure is not S:
                h = DeclarativeCircuit()
                h._structure = S
            text = str(to_stim(h))
            two = ('CZ', 'CX', 'CNOT', 'CY', 'SWAP', 'ISWAP')
            none = ('TICK', 'DETECTOR', 'OBSERVABLE_INCLUDE', 'SHIFT_COORDS', 'QUBIT_COORDS')
            flat = stimread.split_targets(stimread.flat(stimread.parse(text)), lambda n: 2 if n in two else (0 if n in none else 1))
            out = []
            for ins in flat:
                ts = [['rec', t[1]] if isinstance(t, list) and t[0] == 'rec' else (['inv', t[1]] if isinstance(t, list) else ['q', t]) for t in ins['targets']]
                args = [int(a) if float(a).is_integer() else ['float', repr(a)] for a in ins['args']]
                out.append({'name': ins['name'], 'targets': ts, 'args': args})
            return {'status': 'ok', 'flat': out}
        except Exception as e:
            return {'status': 'error:' + e.__class__.__name__ + ':' + str(e)[:120], 'flat': []}

    def openql_flat(self, S):
        if os.environ.get('VERIF_OPENQL') != '1':
            return {'status': 'none', 'flat': [], 'names': [], 'same_twice': True, 'real': {'status': 'none', 'received': [], 'executed': []}}
        from qce_circuit.language.declarative_circuit import DeclarativeCircuit
        import openql_double
        h = getattr(self, '_handle', None)
        if h is None or h.circuit_structure is not S:
            h = DeclarativeCircuit()
            h._structure = S
        d = openql_double.export(h)
        d['real'] = self.openql_real(h) if getattr(self, 'want_real', False) else {'status': 'none', 'received': [], 'executed': []}
        return d

    _real_n = 0

    def openql_real(self, h):
        """The same circuit through the REAL OpenQL: exported, compiled, and both listings OpenQL writes -- the program it
        received (<name>.qasm) and the program it scheduled for execution (<name>_scheduled.qasm) -- read back per qubit."""
        import re
        import tempfile
        from pathlib import Path
        try:
            import openql as ql
            from qce_circuit.addon_openql.platform_manager import PlatformManager
            from qce_circuit.addon_openql.factory_manager import to_openql
            out = tempfile.mkdtemp(prefix='verif_ql_')
            PlatformManager.openql_output_directory = classmethod(lambda cls: Path(out))
            Recorder._real_n += 1
            name = 'verif%d_%d' % (os.getpid(), Recorder._real_n)
            fd = os.dup(1)
            devnull = os.open(os.devnull, os.O_WRONLY)
            os.dup2(devnull, 1)                        # OpenQL's C++ side logs to file descriptor 1
            try:
                prog = to_openql(h, circuit_id=name)
                ql.set_option('output_dir', out)
                prog.compile()
            finally:
                os.dup2(fd, 1)
                os.close(fd)
                os.close(devnull)

            def per_qubit(path):
                res = {}
                for line in open(path):
                    line = line.split('#')[0].strip().strip('{}').strip()
                    m = re.match(r'^([a-z_0-9]+)\s+(.*q\[\d+\].*)$', line)
                    if not m:
                        continue
                    for qb in re.findall(r'q\[(\d+)\]', m.group(2)):
                        res.setdefault(int(qb), []).append(m.group(1))
                return [[qb, res[qb]] for qb in sorted(res)]
            r = {'status': 'ok', 'received': per_qubit(os.path.join(out, name + '.qasm')), 'executed': per_qubit(os.path.join(out, name + '_scheduled.qasm'))}
            import shutil
            shutil.rmtree(out, ignore_errors=True)
            return r
        except Exception as e:
            return {'status': 'error:' + e.__class__.__name__ + ':' + str(e)[:160], 'received': [], 'executed': []}

    def acq_filters(self, S, ops):
        """get_acquisition_indices by qubit and by (qubit, tag) through a handle on the structure, and the order of
        the measurement targets in the flattened Stim export."""
        from qce_circuit.language.declarative_circuit import DeclarativeCircuit
        from qce_circuit.structure.intrf_acquisition_operation import AcquisitionTag
        ms = [o for o in ops if isinstance(o, IAcquisitionOperation) and isinstance(o.qubit_index, int)]
        out = {'by_q': [], 'by_tag': [], 'stim_m': {'status': 'none', 'targets': []}}
        if not ms:
            return out
        h = self._handle
        if h is None:
            h = DeclarativeCircuit()
            h._structure = S
        for qb in sorted(set(o.qubit_index for o in ms)):
            out['by_q'].append([qb, [int(x) for x in h.get_acquisition_indices(qb)]])
        for qb, tg in sorted(set((o.qubit_index, o.acquisition_tag) for o in ms)):
            out['by_tag'].append([qb, tg, [int(x) for x in h.get_acquisition_indices(AcquisitionTag(qubit_index=qb, tag=tg))]])
        try:
            from qce_circuit.addon_stim import to_stim
            import stimread
            out['stim_m'] = {'status': 'ok', 'targets': [t for ins in stimread.flat(stimread.parse(str(to_stim(h)))) if ins['name'] in ('M', 'MZ') for t in ins['targets']]}
        except Exception as e:  # export problems are judged by C08, not here
            out['stim_m'] = {'status': 'error:' + e.__class__.__name__, 'targets': []}
        return out

    def cold(self, S, ops, comps, snap):
        """Memo-free re-evaluation of every time (private memo per snapshot; the process-wide memo is untouched)."""
        memo = {}
        o1, o2 = RelationLink.__dict__['get_start_time'], MultiRelationLink.__dict__['get_start_time']
        w1, w2 = o1.__wrapped__, o2.__wrapped__

        def mk(w, name):
            def get_start_time(self_, duration):
                key = (name, self_._identifier, duration)
                if key not in memo:
                    memo[key] = w(self_, duration)
                return memo[key]
            return get_start_time
        RelationLink.get_start_time = mk(w1, 'R')
        MultiRelationLink.get_start_time = mk(w2, 'M')
        try:
            for o in ops:
                snap['leaves'][self.oid(o)]['start_c'] = q(o.start_time)
            for c in comps:
                d = snap['comps'][self.oid(c)]
                d['start_c'] = q(c.start_time)
                d['dur_c'] = q(self.dur_of(c, S))
        finally:
            RelationLink.get_start_time = o1
            MultiRelationLink.get_start_time = o2
