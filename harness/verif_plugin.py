"""pytest plugin (only loaded by harness/drv_hooks.py): runs the repository's own tests, unchanged, under the recording
hooks; everything one test file builds becomes one trace, ending with an observation battery of every circuit."""
import json
import os

import hooks

SESSION = hooks.Session()


def pytest_sessionstart(session):
    SESSION.install()


def pytest_sessionfinish(session, exitstatus):
    ev = SESSION.take()
    SESSION.uninstall()
    json.dump({'events': ev, 'exitstatus': int(exitstatus)}, open(os.environ['VERIF_PLUGIN_OUT'], 'w'))
