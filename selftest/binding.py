#!/venv/bin/python
"""Binding demonstrations: the trace specification really constrains what the code reports.  Accepted traces recorded from
the real library are corrupted in one field (or lose one event) and must then be rejected with the expected clause."""
import copy
import json
import os
import sys

sys.path.insert(0, os.path.join(os.path.dirname(os.path.abspath(__file__)), '..', 'harness'))
import common  # noqa: E402
import chk_circuit as C  # noqa: E402
import progs as PB  # noqa: E402


def base_programs():
    out = []
    for rep in (1, 2):
        P = PB.Prog()
        m = P.new()
        a = P.add(m, PB.W(0, 4))
        P.add(m, PB.X(1), ref=a, rt='JE')
        s = P.new(rep=rep)
        P.add(s, PB.M(0, 'a'))
        P.add(s, PB.M(1))
        P.add_sub(m, s)
        P.add(m, PB.W(0, 12, 'MICROWAVE'))
        P.act('Apply', m)
        out.append(P.steps)
    return out


def last_obs(t, c=None):
    return [e for e in t if e['ev'] == 'Obs' and e.get('final')][0]


def corruptions():
    def start(t):
        o = last_obs(t)['snap']
        k = o['order'][1]
        o['leaves'][k]['start'] += 4
    def swap(t):
        o = last_obs(t)['snap']
        a, b = o['order'][0], o['order'][1]
        o['order'][0], o['order'][1] = b, a
        o['order2'] = list(o['order'])
        o['leaves'][a]['pos'], o['leaves'][b]['pos'] = o['leaves'][b]['pos'], o['leaves'][a]['pos']
    def drop_leaf(t):
        o = last_obs(t)['snap']
        k = o['order'].pop()
        o['order2'] = list(o['order'])
        del o['leaves'][k]
        for c in o['comps'].values():
            if k in c['members']:
                c['members'].remove(k)
    def acq(t):
        o = last_obs(t)['snap']
        ms = [k for k in o['order'] if o['leaves'][k]['acq_c'] != -2]
        o['leaves'][ms[-1]]['acq_c'] -= 1
    def span(t):
        o = last_obs(t)['snap']
        top = o['comps'][o['top']]
        top['dur_v'] += 4
        top['end'] += 4
        top['dur_c'] += 4
    def drop_event(t):
        k = [i for i, e in enumerate(t) if e['ev'] == 'AddOp'][-1]
        del t[k]
    def stim(t):
        o = last_obs(t)['snap']
        if o['stim']['flat']:
            o['stim']['flat'][0]['name'] = 'H' if o['stim']['flat'][0]['name'] != 'H' else 'X'
    def after(t):
        e = [e for e in t if e['ev'] == 'AddOp' and e['given']['k'] == 'none' and e['after']['k'] == 'one'][0]
        e['after'] = dict(e['after'], rt='JS')
    def cmap(t):
        e = [e for e in t if e['ev'] == 'AddSub'][0]
        e['cmap'] = e['cmap'][:-1] if e['cmap'][-1][0] != e['id'] else e['cmap'][1:]
    def count(t):
        e = [e for e in t if e['ev'] == 'Apply'][0]
        if e['new']:
            e['new'] = e['new'][:-1]
            del e['tree'][[x for x in e['tree']][-1]]
    return [('reported start time +1', start, 'C01.eq'), ('two listing positions swapped', swap, 'C02.'), ('one listed operation dropped', drop_leaf, 'C02.complete'),
            ('one acquisition index lowered', acq, 'C07.'), ('circuit duration +1', span, 'C04.span'), ('one AddOp event dropped', drop_event, 'C02.complete'),
            ('one exported instruction renamed', stim, 'C08.image'), ('implicit relation type changed', after, 'C01.implicit'),
            ('one copy-map entry dropped', cmap, 'C05.map')]


def main():
    progs_ = base_programs()
    traces = C.execute(progs_)
    fails, _ = C.validate(traces, nchunks=1)
    hard = [f for f in fails if not f.get('memo') and not f['clause'].startswith('C03.memo') and not f['clause'].startswith('D0')]
    lines = ['# Binding demonstrations', '', 'Base traces (2 programs) accepted: %s' % (not hard), '', '| corruption | expected clause prefix | rejected with |', '|---|---|---|']
    ok = not hard
    for name, fn, want in corruptions():
        ts = copy.deepcopy(traces)
        for t in ts:
            try:
                fn(t)
            except (IndexError, KeyError):
                pass
        try:
            fs, _ = C.validate(ts, nchunks=1)
            got = sorted(set(f['clause'] for f in fs if not f['clause'].startswith('C03.memo') and not f['clause'].startswith('D0')))
        except common.MachineryError as e:
            got = ['MACHINERY: ' + str(e)[:80]]
        hit = any(g.startswith(want) for g in got)
        ok = ok and hit
        lines.append('| %s | %s | %s %s |' % (name, want, 'OK' if hit else 'MISSED', ' '.join(got[:6])))
    open(os.path.join(os.path.dirname(os.path.abspath(__file__)), 'BINDING.md'), 'w').write('\n'.join(lines) + '\n')
    print('\n'.join(lines))
    sys.exit(0 if ok else 1)


if __name__ == '__main__':
    main()
