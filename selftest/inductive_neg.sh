#!/bin/bash
# inductive_neg.sh: vacuity self-test of spec/KernelInductive.tla (advisory clause E12.inductive). Two broken variants of the action
# system (blocks overlapping by one index; repetitions translated by cycle - 1) must be REJECTED at the inductive step by Apalache,
# the unchanged module must be accepted. Scratch files go to a temporary directory that is removed at the end.
V=$(cd "$(dirname "$0")/.." && pwd); T=$(mktemp -d); rc=0
run() { (cd $T && timeout 300 apalache-mc check --init=IndInit --inv=IndInv --length=1 --out-dir=$T/out $1 2>&1 | grep -o 'The outcome is: [A-Za-z]*' | tail -1); }
cp $V/spec/KernelInductive.tla $T/
[ "$(run KernelInductive.tla)" = "The outcome is: NoError" ] && echo "unchanged: accepted" || { echo "unchanged: NOT accepted"; rc=1; }
sed "s/nxt' = nxt + BlockLen(r)\$/nxt' = nxt + BlockLen(r) - 1/; s/MODULE KernelInductive/MODULE NegA/" $V/spec/KernelInductive.tla > $T/NegA.tla
[ "$(run NegA.tla)" = "The outcome is: Error" ] && echo "overlapping blocks: rejected" || { echo "overlapping blocks: NOT rejected"; rc=1; }
sed "s/base' = base + cycle\$/base' = base + cycle - 1/; s/MODULE KernelInductive/MODULE NegB/" $V/spec/KernelInductive.tla > $T/NegB.tla
[ "$(run NegB.tla)" = "The outcome is: Error" ] && echo "short translate: rejected" || { echo "short translate: NOT rejected"; rc=1; }
rm -rf $T; exit $rc
