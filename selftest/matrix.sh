#!/bin/bash
# matrix.sh [tier]: every seeded change against the check of its own property, each in its own scratch worktree of /repo HEAD
# (checks run with --repo <worktree>; /repo itself is not touched). Results -> selftest/RESULTS.md
tier=${1:-quick}; pat=${2:-.}
V=$(cd "$(dirname "$0")/.." && pwd); export V   # the verification tree this script belongs to (works from a vp-run snapshot too)
MX=${MX:-/tmp/mx}; export MX; mkdir -p $MX; out=$V/selftest/RESULTS${2:+_part}.md
run_one() {
  id=$1; prop=${id:0:3}; wt=$MX/$id
  rm -rf $wt; git -C /repo worktree add -f -q $wt HEAD || { echo "| $id | $prop | worktree failed |"; return; }
  if ! git -C $wt apply $V/seeded/$id/patch.diff 2>/dev/null; then echo "| $id | $prop | patch does not apply |"; git -C /repo worktree remove --force $wt; return; fi
  cd $V && VERIF_KEEP= /venv/bin/python harness/check.py $prop --tier $2 --repo $wt > $MX/$id.log 2>&1; rc=$?
  cl=$(grep 'failed clause' $MX/$id.log | sed 's/.*failed clause \([A-Za-z0-9_.]*\):.*/\1/' | sort -u | head -4 | tr '\n' ' ')
  echo "| $id | $prop | exit $rc | $(grep -c '^VIOLATION' $MX/$id.log) | $cl |"
  git -C /repo worktree remove --force $wt
}
export -f run_one
{ echo "# Seeded changes vs checks ($tier tier, $(date -u +%FT%TZ), repo $(git -C /repo rev-parse --short HEAD))"; echo; echo "| seed | property | check exit | VIOLATION lines | failing clauses |"; echo "|---|---|---|---|---|"; 
  ls $V/seeded | grep -E "$pat" | xargs -P 3 -I{} bash -c "run_one {} $tier" | sort; } > $out.tmp && mv $out.tmp $out
cat $out
