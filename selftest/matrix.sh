#!/bin/bash
# matrix.sh [tier]: every seeded change against the check of its own property, each in its own scratch worktree of /repo HEAD
# (checks run with --repo <worktree>; /repo itself is not touched). Results -> selftest/RESULTS.md
tier=${1:-quick}; pat=${2:-.}
mkdir -p /tmp/mx; out=/verif/selftest/RESULTS${2:+_part}.md
run_one() {
  id=$1; prop=${id:0:3}; wt=/tmp/mx/$id
  rm -rf $wt; git -C /repo worktree add -f -q $wt HEAD || { echo "| $id | $prop | worktree failed |"; return; }
  if ! git -C $wt apply /verif/seeded/$id/patch.diff 2>/dev/null; then echo "| $id | $prop | patch does not apply |"; git -C /repo worktree remove --force $wt; return; fi
  cd /verif && VERIF_KEEP= /venv/bin/python harness/check.py $prop --tier $2 --repo $wt > /tmp/mx/$id.log 2>&1; rc=$?
  cl=$(grep 'failed clause' /tmp/mx/$id.log | sed 's/.*failed clause \([A-Za-z0-9_.]*\):.*/\1/' | sort -u | head -4 | tr '\n' ' ')
  echo "| $id | $prop | exit $rc | $(grep -c '^VIOLATION' /tmp/mx/$id.log) | $cl |"
  git -C /repo worktree remove --force $wt
}
export -f run_one
{ echo "# Seeded changes vs checks ($tier tier, $(date -u +%FT%TZ), repo $(git -C /repo rev-parse --short HEAD))"; echo; echo "| seed | property | check exit | VIOLATION lines | failing clauses |"; echo "|---|---|---|---|---|"; 
  ls /verif/seeded | grep -E "$pat" | xargs -P 3 -I{} bash -c "run_one {} $tier" | sort; } > $out.tmp && mv $out.tmp $out
cat $out
