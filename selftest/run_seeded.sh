#!/bin/bash
# run_seeded.sh <seed id> <property> [tier]: applies the seeded change to /repo, runs the property's check, reverts /repo.
id=$1; prop=$2; tier=${3:-quick}
cd /repo && git status --short | grep -q . && { echo "repo not clean"; exit 9; }
git -C /repo apply /verif/seeded/$id/patch.diff || { echo "patch does not apply"; exit 9; }
cd /verif && /venv/bin/python harness/check.py $prop --tier $tier > /tmp/seeded_$id.$prop.log 2>&1; rc=$?
git -C /repo checkout -- . 
echo "$id $prop rc=$rc $(grep -c '^VIOLATION' /tmp/seeded_$id.$prop.log) violation line(s); $(grep 'failed clause' /tmp/seeded_$id.$prop.log | head -2 | cut -c1-200)"
