#!/bin/bash
# seeds.sh "<seeds>" [tier]: every check on the unchanged tree under several VERIF_SEED values; any non-zero exit is listed.
tier=${2:-quick}; V=$(cd "$(dirname "$0")/.." && pwd); export V; out=$V/selftest/SEEDS_$tier.log; : > $out
for seed in $1; do
  for p in C01 C02 C03 C04 C05 C06 C07 C08 C09 C10 C11 C12 C13 C14 C15 C16 C17 C18 C19; do
    echo "$seed $p"
  done
done | xargs -P 2 -L 1 bash -c 'cd $V; VERIF_SEED=$0 /venv/bin/python harness/check.py $1 --tier '$tier' > /tmp/seed_$0_$1.log 2>&1; echo "seed=$0 $1 exit=$? $(grep -c "^KNOWN-FINDING" /tmp/seed_$0_$1.log) known $(grep "^VIOLATION\|MACHINERY" /tmp/seed_$0_$1.log | head -1 | cut -c1-120)"' | tee -a $out
