#!/bin/bash
# verify_seed.sh <dir with patch.diff demo.py meta.json> : confirms, in a scratch worktree of /repo HEAD, that
#  (1) demo passes without the patch, (2) the patch applies, (3) the 61 tests pass with it, (4) demo fails with it.
src=$1; name=$(basename $src); wt=/tmp/seedchk/$name
rm -rf $wt; mkdir -p /tmp/seedchk; git -C /repo worktree add -f -q $wt HEAD || exit 9
cp $src/demo.py $wt/demo.py
cd $wt
PYTHONPATH=$wt/src timeout 600 /venv/bin/python demo.py >/tmp/seedchk/$name.base.log 2>&1; base=$?
if ! git apply $src/patch.diff 2>/tmp/seedchk/$name.apply.log; then echo "$name APPLY-FAILED base=$base"; git -C /repo worktree remove --force $wt; exit 1; fi
PYTHONPATH=$wt/src timeout 900 /venv/bin/python -m pytest -q -p no:cacheprovider -x >/tmp/seedchk/$name.tests.log 2>&1; tests=$?
PYTHONPATH=$wt/src timeout 600 /venv/bin/python demo.py >/tmp/seedchk/$name.mut.log 2>&1; mut=$?
echo "$name base_demo_exit=$base tests_exit=$tests mutant_demo_exit=$mut $(tail -1 /tmp/seedchk/$name.tests.log)"
cd /; git -C /repo worktree remove --force $wt
