----------------------------- MODULE CalKernel -----------------------------
(***************************************************************************)
(* The stand-alone calibration index kernel (GeneralCalibrationIndexKernel *)
(* of kernel_calibration.py): qubit (states 0, 1) or qutrit (0, 1, 2)      *)
(* calibration points, with or without a heralding measurement before each *)
(* point, the whole group repeated n times.  Not used by the experiment     *)
(* kernel of C12/C13 (that one uses QutritCalibrationIndexKernel, see       *)
(* IndexKernel.tla); specified here to extend the coverage of the          *)
(* acquisition-indexing package.  None of the listed properties speaks     *)
(* about this class: its clauses are reported as advisory (prefix E12).    *)
(***************************************************************************)
EXTENDS Integers, Sequences, FiniteSets

NStates(F)      == 2 + F                              \* F = 1: qutrit
PointLen(H)     == 1 + H                              \* one calibration point: [heralding measurement,] measurement
GCycle(H, F)    == PointLen(H) * NStates(F)
GStop(s0, H, F, n) == s0 + n * GCycle(H, F) - 1       \* inclusive
\* index of the heralding / calibration measurement of state s in repetition k (0-based)
GHer(s0, H, F, k, s) == s0 + k * GCycle(H, F) + s * PointLen(H)
GCal(s0, H, F, k, s) == s0 + k * GCycle(H, F) + s * PointLen(H) + H
GHerAll(s0, H, F, n, s) == IF H = 1 /\ s < NStates(F) THEN [k \in 1..n |-> GHer(s0, H, F, k - 1, s)] ELSE <<>>
GCalAll(s0, H, F, n, s) == IF s < NStates(F) THEN [k \in 1..n |-> GCal(s0, H, F, k - 1, s)] ELSE <<>>

SeqSetG(q) == {q[j] : j \in 1..Len(q)}
\* design: the categories partition the kernel's range
GPartition(s0, H, F, n) ==
  LET cats == {SeqSetG(GHerAll(s0, H, F, n, s)) : s \in 0..2} \cup {SeqSetG(GCalAll(s0, H, F, n, s)) : s \in 0..2} IN
  /\ UNION cats = s0..GStop(s0, H, F, n)
  /\ \A a, b \in cats : a # b => a \cap b = {}
  /\ \A s \in 0..(NStates(F) - 1) : Len(GCalAll(s0, H, F, n, s)) = n
=============================================================================
