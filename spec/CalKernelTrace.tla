-------------------------- MODULE CalKernelTrace --------------------------
(* Binding of CalKernel.tla: one row per (start, heralded, qutrit, repetitions), every getter of the real kernel. *)
EXTENDS CalKernel, TLC, Json, IOUtils
Rows == JsonDeserialize(IOEnv.VERIF_IN)
VARIABLES i, fails
W(cond, name) == IF cond THEN {} ELSE {name}
RowFails(r) ==
  LET s0 == r.s0  H == r.H  F == r.F  n == r.n IN
  W(r.start = s0 /\ r.stop = GStop(s0, H, F, n) /\ r.cycle = GCycle(H, F), "E12.general.range")
  \cup W(r.states = NStates(F) /\ r.heralded = (H = 1), "E12.general.states")
  \cup W(SeqSetG(r.all) = s0..GStop(s0, H, F, n) /\ Len(r.all) = n * GCycle(H, F), "E12.general.contains")
  \cup W(\A s \in 0..2 : r.her[s + 1] = GHerAll(s0, H, F, n, s), "E12.general.heralded")
  \cup W(\A s \in 0..2 : r.cal[s + 1] = GCalAll(s0, H, F, n, s), IF H = 1 THEN "E12.general.calibration" ELSE "E12.general.calibration.unheralded")
Init == i = 1 /\ fails = <<>>
Step == /\ i <= Len(Rows)
        /\ LET f == RowFails(Rows[i]) IN fails' = IF f = {} THEN fails ELSE Append(fails, [row |-> i, clauses |-> f])
        /\ i' = i + 1
Done == /\ i = Len(Rows) + 1
        /\ JsonSerialize(IOEnv.VERIF_OUT, [n |-> Len(Rows), fails |-> fails])
        /\ i' = i + 1 /\ UNCHANGED fails
Next == Step \/ Done
Spec == Init /\ [][Next]_<<i, fails>>
=============================================================================
