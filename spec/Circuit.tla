------------------------------ MODULE Circuit ------------------------------
(***************************************************************************)
(* Abstract state machine of the QCoCircuits circuit builder.              *)
(*                                                                         *)
(* State: a heap of objects (leaf operations and composite blocks) linked  *)
(* by scheduling relations and nested by `home`, a set of circuit handles, *)
(* and the duration environment (stack of global duration tables, the      *)
(* dynamic duration registry, the repetition registry).                    *)
(* Transitions: one per public call (NewCircuit, AddOp, AddSub, CopyCirc,  *)
(* ApplyModifiers, Flatten, SetDur, SetRep, EnterOverride, LeaveOverride); *)
(* observations do not change the state.                                   *)
(*                                                                         *)
(* The module is written to be bound: every action is an operator that     *)
(* takes the identifiers of the objects it creates, so the generator       *)
(* (CircuitGen) supplies fresh ones and the trace specification            *)
(* (CircuitTrace) supplies the ones recorded from the real code.           *)
(* Times are integers: real durations are multiples of 1/4.                *)
(***************************************************************************)
EXTENDS Ident, Integers, TLC, SequencesExt

\* ------------------------------------------------------------------ values
None == ""                                   \* "no object"
NoLink         == [k |-> "none",  ref |-> None, refs |-> <<>>, rt |-> ""]
OneLink(r, t)  == [k |-> "one",   ref |-> r,    refs |-> <<>>, rt |-> t]
MultiLink(rs)  == [k |-> "multi", ref |-> None, refs |-> rs,   rt |-> "FB"]
RelTypes == {"FB", "JS", "JE"}               \* FOLLOWED_BY, JOINED_START, JOINED_END

GlobalKeys == {"RO", "MW", "FL", "RST"}
\* duration terms: <<"fixed", n>>, <<"global", key>>, <<"reg", key>>, <<"decouple">>
\* repetition terms: <<"fixed", n>>, <<"reg", key>>

Leaf(kind, qs, chans, dur, tag, link, home) ==
  [t |-> "op", kind |-> kind, qs |-> qs, chans |-> chans, dur |-> dur, tag |-> tag,
   link |-> link, home |-> home, rep |-> <<"fixed", 1>>, kids |-> <<>>, extra |-> <<>>]
Comp(link, rep, home, kids) ==
  [t |-> "comp", kind |-> "Composite", qs |-> <<>>, chans |-> <<>>, dur |-> <<"span">>, tag |-> "",
   link |-> link, home |-> home, rep |-> rep, kids |-> kids, extra |-> <<>>]

MaxOf(S)   == CHOOSE x \in S : \A y \in S : y <= x
MinOf(S)   == CHOOSE x \in S : \A y \in S : x <= y
IndexIn(s, x) == CHOOSE j \in 1..Len(s) : s[j] = x

\* ------------------------------------------------------------- environment
DefaultGlobal == [RO |-> 8, MW |-> 4, FL |-> 4, RST |-> 8]   \* 2.0, 1.0, 1.0, 2.0 in quarter units
InitEnv == [glob |-> <<DefaultGlobal>>, dreg |-> <<>>, rreg |-> <<>>]   \* registries: sequences of <<key, value>>

Lookup(pairs, key, default) ==
  LET hits == {j \in 1..Len(pairs) : pairs[j][1] = key}
  IN IF hits = {} THEN default ELSE pairs[MaxOf(hits)][2]            \* last write wins
CurGlobal(E) == E.glob[Len(E.glob)]

EvalDur(E, term) ==
  CASE term[1] = "fixed"    -> term[2]
    [] term[1] = "global"   -> CurGlobal(E)[term[2]]
    [] term[1] = "reg"      -> Lookup(E.dreg, term[2], 0)
    [] term[1] = "decouple" -> (LET d == CurGlobal(E).RO - CurGlobal(E).MW IN IF d > 0 THEN d \div 2 ELSE 0)
EvalRep(E, term) ==
  CASE term[1] = "fixed" -> term[2]
    [] term[1] = "reg"   -> Lookup(E.rreg, term[2], 1)

\* ------------------------------------------------------------ tree queries
RECURSIVE LeavesOf(_, _), SubtreeSeq(_, _), ChansOf(_, _)
\* leaves below i in insertion (pre-)order
LeavesOf(H, i) ==
  IF H[i].t = "op" THEN <<i>>
  ELSE LET F[n \in 0..Len(H[i].kids)] ==
             IF n = 0 THEN <<>> ELSE F[n-1] \o LeavesOf(H, H[i].kids[n])
       IN F[Len(H[i].kids)]
\* every object below and including i, pre-order
SubtreeSeq(H, i) ==
  IF H[i].t = "op" THEN <<i>>
  ELSE LET F[n \in 0..Len(H[i].kids)] ==
             IF n = 0 THEN <<i>> ELSE F[n-1] \o SubtreeSeq(H, H[i].kids[n])
       IN F[Len(H[i].kids)]
Subtree(H, i) == Range(SubtreeSeq(H, i))
\* channel identifiers an object occupies (a block occupies what its leaves occupy)
ChansOf(H, i) ==
  IF H[i].t = "op" THEN Range(H[i].chans)
  ELSE UNION {ChansOf(H, H[i].kids[n]) : n \in 1..Len(H[i].kids)}

Blocks(H, c) == {i \in Subtree(H, c) : H[i].t = "comp"}

\* relation steps from the block's start to node i (nodes hang under what their link refers to)
RECURSIVE Depth(_, _)
Depth(H, i) ==
  LET L == H[i].link IN
  IF L.k = "one" /\ L.ref \in DOMAIN H /\ H[L.ref].home = H[i].home THEN 1 + Depth(H, L.ref)
  ELSE IF L.k = "multi" /\ L.refs # <<>> THEN 1 + MaxOf({Depth(H, m) : m \in Range(L.refs)})
  ELSE 1

\* nodes of block c nothing else in c refers to
RelLeaves(H, c) ==
  LET K == Range(H[c].kids)
      referred == {H[n].link.ref : n \in {m \in K : H[m].link.k = "one"}}
                    \cup UNION {Range(H[n].link.refs) : n \in {m \in K : H[m].link.k = "multi"}}
  IN K \ referred

\* The implicit rule (C01): the candidates an operation added without relation may follow.
Matching(H, c, chans)        == {n \in Range(H[c].kids) : AnyMatch(ChansOf(H, n), chans)}
DeepestMatching(H, c, chans) ==
  LET M == Matching(H, c, chans) IN
  IF M = {} THEN {} ELSE LET d == MaxOf({Depth(H, n) : n \in M}) IN {n \in M : Depth(H, n) = d}
ImplicitLinks(H, c, chans) ==
  LET D == DeepestMatching(H, c, chans) IN
  IF D = {} THEN {NoLink} ELSE {OneLink(p, "FB") : p \in D}

\* ----------------------------------------------- times (constructive semantics)
\* Relative placement inside the enclosing block's frame; links of nested objects refer to siblings.
RECURSIVE DurOf(_, _, _), RelStart(_, _, _), StartOf(_, _, _)
RelEnd(H, E, i) == RelStart(H, E, i) + DurOf(H, E, i)
RelStart(H, E, i) ==
  LET L == H[i].link IN
  CASE L.k = "none"  -> 0
    [] L.k = "one"   -> (CASE L.rt = "FB" -> RelEnd(H, E, L.ref)
                           [] L.rt = "JS" -> RelStart(H, E, L.ref)
                           [] L.rt = "JE" -> RelEnd(H, E, L.ref) - DurOf(H, E, i))
    [] L.k = "multi" -> (IF L.refs = <<>> THEN 0 ELSE MaxOf({RelEnd(H, E, m) : m \in Range(L.refs)}))
\* offset of a descendant d of block c relative to c's start
RECURSIVE OffsetIn(_, _, _, _)
OffsetIn(H, E, c, d) == IF H[d].home = c THEN RelStart(H, E, d)
                        ELSE OffsetIn(H, E, c, H[d].home) + RelStart(H, E, d)
SpanOf(H, E, c) ==
  LET Ls == Range(LeavesOf(H, c)) IN
  IF Ls = {} THEN 0
  ELSE MaxOf({OffsetIn(H, E, c, d) + DurOf(H, E, d) : d \in Ls}) - MinOf({OffsetIn(H, E, c, d) : d \in Ls})
DurOf(H, E, i) == IF H[i].t = "op" THEN EvalDur(E, H[i].dur) ELSE SpanOf(H, E, i)
StartOf(H, E, i) == IF H[i].home = None THEN 0 ELSE StartOf(H, E, H[i].home) + RelStart(H, E, i)
EndOf(H, E, i) == StartOf(H, E, i) + DurOf(H, E, i)

\* ------------------------------------------------------------- well-formedness
WellFormed(H) ==
  \A i \in DOMAIN H :
    /\ (H[i].home # None => H[i].home \in DOMAIN H /\ H[H[i].home].t = "comp" /\ i \in Range(H[H[i].home].kids))
    /\ (H[i].t = "comp" => \A n \in 1..Len(H[i].kids) : H[H[i].kids[n]].home = i)
    /\ (H[i].link.k = "one" =>
          /\ H[i].link.ref \in DOMAIN H /\ H[i].link.rt \in RelTypes
          /\ (H[i].home # None =>                        \* references point to EARLIER siblings: well-founded
                /\ H[H[i].link.ref].home = H[i].home
                /\ IndexIn(H[H[i].home].kids, H[i].link.ref) < IndexIn(H[H[i].home].kids, i)))
    /\ (H[i].link.k = "multi" =>
          \A m \in Range(H[i].link.refs) :
             /\ m \in DOMAIN H /\ H[m].home = H[i].home
             /\ IndexIn(H[H[i].home].kids, m) < IndexIn(H[H[i].home].kids, i))

\* ----------------------------------------------------------------- copying
MapLink(L, f) ==
  CASE L.k = "none"  -> L
    [] L.k = "one"   -> (IF L.ref \in DOMAIN f THEN OneLink(f[L.ref], L.rt) ELSE NoLink)
    [] L.k = "multi" -> MultiLink(SelectSeq([j \in 1..Len(L.refs) |-> IF L.refs[j] \in DOMAIN f THEN f[L.refs[j]] ELSE None],
                                            LAMBDA x : x # None))
\* the image of the subtree of `root` under the injective renaming f (DOMAIN f = Subtree(H, root));
\* the copy's root is placed in `newHome` with link `rootLink`
CopyRecords(H, root, f, newHome, rootLink) ==
  [n \in {f[i] : i \in DOMAIN f} |->
     LET i == CHOOSE j \in DOMAIN f : f[j] = n  r == H[i] IN
     IF i = root
     THEN [r EXCEPT !.link = rootLink, !.home = newHome, !.kids = [j \in 1..Len(r.kids) |-> f[r.kids[j]]]]
     ELSE [r EXCEPT !.link = MapLink(r.link, f), !.home = f[r.home], !.kids = [j \in 1..Len(r.kids) |-> f[r.kids[j]]]]]

Extend(H, R) == [i \in DOMAIN H \cup DOMAIN R |-> IF i \in DOMAIN R THEN R[i] ELSE H[i]]
AppendKid(H, c, n) == [H EXCEPT ![c].kids = Append(@, n)]

\* Faithfulness of a copy (C05): f maps the source subtree onto the copy; attributes, relation types,
\* internal references and nesting are preserved.
IsoUnder(H, G, root, f) ==
  /\ DOMAIN f = Subtree(H, root)
  /\ \A a, b \in DOMAIN f : a # b => f[a] # f[b]
  /\ \A i \in DOMAIN f :
       /\ f[i] \in DOMAIN G
       /\ G[f[i]].t = H[i].t /\ G[f[i]].kind = H[i].kind /\ G[f[i]].qs = H[i].qs /\ G[f[i]].chans = H[i].chans
       /\ G[f[i]].dur = H[i].dur /\ G[f[i]].tag = H[i].tag /\ G[f[i]].rep = H[i].rep /\ G[f[i]].extra = H[i].extra
       /\ (i # root => G[f[i]].link = MapLink(H[i].link, f) /\ G[f[i]].home = f[H[i].home])
       /\ Len(G[f[i]].kids) = Len(H[i].kids)
       /\ \A j \in 1..Len(H[i].kids) : G[f[i]].kids[j] = f[H[i].kids[j]]

\* ------------------------------------------------------------------ actions
\* (pure functions from state to state; the callers supply identifiers)
DoNewCircuit(H, id, link, rep) == Extend(H, [x \in {id} |-> Comp(link, rep, None, <<>>)])

\* The relation an added node ends up with: a given link to a node of c is kept, otherwise the implicit rule.
GivenIsValid(H, c, link) == link.k = "one" /\ link.ref \in Range(H[c].kids)
AllowedLinks(H, c, chans, given) == IF GivenIsValid(H, c, given) THEN {given} ELSE ImplicitLinks(H, c, chans)

DoAddOp(H, c, id, rec, link) ==
  AppendKid(Extend(H, [x \in {id} |-> [rec EXCEPT !.link = link, !.home = c]]), c, id)

\* nest a copy of circuit s (its whole subtree) in c
DoAddSub(H, c, s, f, rootLink) ==
  AppendKid(Extend(H, CopyRecords(H, s, f, c, rootLink)), c, f[s])

\* explicit copy of a circuit: a new top-level circuit
\* (the copy's own relation: re-pointed like any other; a relation to something outside the copied structure is dropped)
DoCopyCirc(H, s, f) == Extend(H, CopyRecords(H, s, f, None, MapLink(H[s].link, f)))

\* ----------------------------------------------------------------- masking
\* replace_operation(circuit, masks) of circuit_modifiers.py rebuilds a (flat) circuit operation by operation: each
\* operation is copied with its relation re-pointed to the copy of what it referred to, the masks are tried in order and a
\* matching one swaps the copy for a placeholder of the same duration (on channel ALL of the same qubits), then the copy is
\* added to the new circuit by the ordinary rule.  No listed property speaks about masking; clauses derived from this
\* section carry the prefix E05 and are advisory.
\* mask records: [t |-> "op", kind, q] one kind on one qubit; [t |-> "chan", chan, q] whatever occupies that channel of q;
\*               [t |-> "two", q, q2, chan] two-qubit operations on q (and q2 unless -1) -- all with the same fields
MaskRec(t, kind, q, q2, chan) == [t |-> t, kind |-> kind, q |-> q, q2 |-> q2, chan |-> chan]
SingleKinds == {"Reset", "Wait", "Identity", "Hadamard", "Rx180", "Rx90", "Rxm90", "Ry180", "Ry90", "Rym90", "Rx180ef", "VirtualPhase",
                "VirtualPark", "Rphi90", "VirtualVacant", "VirtualEmpty", "DetectorOperation", "LogicalObservableOperation", "SingleQubitOperation"}
TwoKinds    == {"CPhase", "TwoQubitVirtualPhase", "VirtualTwoQubitVacant", "TwoQubitOperation"}
MaskMatches(mk, o) ==
  CASE mk.t = "op"   -> o.kind = mk.kind /\ Len(o.qs) = 1 /\ o.qs[1] = mk.q
    [] mk.t = "chan" -> /\ (o.kind \in SingleKinds \/ o.kind = "DispersiveMeasure") /\ o.kind \notin {"VirtualVacant", "VirtualEmpty"}
                        /\ <<mk.q, mk.chan>> \in Range(o.chans) /\ \A ch \in Range(o.chans) : ch[2] # "ALL"
    [] mk.t = "two"  -> /\ o.kind \in TwoKinds /\ o.kind # "VirtualTwoQubitVacant"
                        /\ <<mk.q, mk.chan>> \in Range(o.chans) /\ (mk.q2 >= 0 => <<mk.q2, mk.chan>> \in Range(o.chans))
    [] OTHER -> FALSE
MaskKind(mk, o) ==
  CASE mk.t = "two" -> "VirtualTwoQubitVacant"
    [] mk.t = "chan" /\ o.kind \in {"VirtualPark", "Wait"} -> "VirtualEmpty"
    [] OTHER -> "VirtualVacant"
Placeholder(mk, o) == [o EXCEPT !.kind = MaskKind(mk, o), !.chans = [j \in 1..Len(o.qs) |-> <<o.qs[j], "ALL">>], !.tag = "", !.extra = <<>>]
MaskFold(masks, o) ==
  LET F[k \in 0..Len(masks)] == IF k = 0 THEN o ELSE IF MaskMatches(masks[k], F[k-1]) THEN Placeholder(masks[k], F[k-1]) ELSE F[k-1]
  IN F[Len(masks)]
IsFlat(H, c) == \A k \in Range(H[c].kids) : H[k].t = "op"
\* the rebuilt circuit `new`; f renames the operations of c; pick(k, allowed) selects the relation of the k-th operation among
\* those the adding rule allows (the generator takes any, the trace specification the reported one if it is allowed)
DoMask(H, c, Ls, new, f, masks, pick(_, _)) ==          \* Ls: the operations of c in the order they are rebuilt (a listing of c)
  LET F[k \in 0..Len(Ls)] ==
        IF k = 0 THEN DoNewCircuit(H, new, NoLink, <<"fixed", 1>>)
        ELSE LET o == Ls[k]  rec == MaskFold(masks, H[o])
                 allowed == AllowedLinks(F[k-1], new, Range(rec.chans), MapLink(H[o].link, f))
             IN DoAddOp(F[k-1], new, f[o], rec, pick(k, allowed))
  IN F[Len(Ls)]

\* --------------------------------------------------------------- unrolling
\* ApplyModifiers: a block with count n becomes n copies of its content chained one after another.
\* `fresh` is an infinite supply: fresh[k] is the k-th new identifier.  Returns [h |-> heap, n |-> identifiers used].
RECURSIVE UnrollBlock(_, _, _, _, _)
RepeatOnce(H, c, K0, fresh, used) ==
  \* append one more copy of the original content K0 (a sequence of kids) to block c
  LET leaves  == RelLeaves(H, c)
      srcSeq  == LET F[n \in 0..Len(K0)] == IF n = 0 THEN <<>> ELSE F[n-1] \o SubtreeSeq(H, K0[n]) IN F[Len(K0)]
      f       == [i \in Range(srcSeq) |-> fresh[used + IndexIn(srcSeq, i)]]
      chain   == MultiLink(SetToSeq(leaves))
      recs    == [n \in {f[i] : i \in DOMAIN f} |->
                    LET i == CHOOSE j \in DOMAIN f : f[j] = n  r == H[i] IN
                    IF i \in Range(K0)
                    THEN [r EXCEPT !.link = IF r.link.k = "none" \/ (r.link.k = "one" /\ r.link.ref \notin DOMAIN f)
                                             THEN chain ELSE MapLink(r.link, f),
                                   !.kids = [j \in 1..Len(r.kids) |-> f[r.kids[j]]]]
                    ELSE [r EXCEPT !.link = MapLink(r.link, f), !.home = f[r.home],
                                   !.kids = [j \in 1..Len(r.kids) |-> f[r.kids[j]]]]]
      H1      == Extend(H, recs)
  IN [h |-> [H1 EXCEPT ![c].kids = @ \o [j \in 1..Len(K0) |-> f[K0[j]]]], n |-> used + Len(srcSeq)]

UnrollBlock(H, E, c, fresh, used) ==
  LET n  == EvalRep(E, H[c].rep)
      K0 == H[c].kids
      R[k \in 1..(IF n < 1 THEN 1 ELSE n)] ==
            IF k = 1 THEN [h |-> H, n |-> used] ELSE RepeatOnce(R[k-1].h, c, K0, fresh, R[k-1].n)
      rep == R[IF n < 1 THEN 1 ELSE n]
      H2  == [rep.h EXCEPT ![c].rep = <<"fixed", 1>>]
      kids == H2[c].kids
      \* then every nested block (copies included) unrolls itself
      U[k \in 0..Len(kids)] ==
            IF k = 0 THEN [h |-> H2, n |-> rep.n]
            ELSE IF U[k-1].h[kids[k]].t = "comp" THEN UnrollBlock(U[k-1].h, E, kids[k], fresh, U[k-1].n)
            ELSE U[k-1]
  IN U[Len(kids)]

\* occurrences expected after unrolling: product of the counts of the enclosing blocks (C06)
RECURSIVE Multiplicity(_, _, _, _)
Multiplicity(H, E, c, i) ==
  IF i = c THEN EvalRep(E, H[c].rep)
  ELSE (IF H[i].t = "comp" THEN EvalRep(E, H[i].rep) ELSE 1) * Multiplicity(H, E, c, H[i].home)

=============================================================================
