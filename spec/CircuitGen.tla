---------------------------- MODULE CircuitGen ----------------------------
(* The action system of Circuit.tla over a finite alphabet, with the history *)
(* of actions kept in `hist`.  Three uses:                                    *)
(*  - model checking: invariants of MCProps on every reachable state;         *)
(*  - generation: every state whose last action is an observation is a        *)
(*    program; it is printed as JSON and replayed on the real library;        *)
(*  - simulation (-simulate) for programs longer than exhaustive search.      *)
EXTENDS Circuit, Json

CONSTANTS MaxCircs,    \* circuit handles
          MaxObjs,     \* heap size bound
          MaxSteps,    \* program length
          Menu,        \* set of leaf templates (records built with T below; supplied by a generated wrapper module)
          Reps,        \* repetition terms a new circuit may carry
          Configs,     \* global duration tables for overrides
          Acts,        \* enabled action names
          LinkTypes,   \* relation types explicit links may use
          MinEmit,     \* shortest history printed as a program
          Anchors,     \* templates that may be used freely; the others (Menu \ Anchors) at most MaxNonAnchor times per program
          MaxNonAnchor,
          ObsKinds,    \* kinds of interior observation: "full" battery, "plot" (compact drawing), "plotnc", "stim", "duration", "ops"
          Masks,       \* mask lists the Mask action may use (sequences of MaskRec)
          DeepRefs,    \* may an explicit relation refer to an operation nested inside a sub-circuit (not a direct entry)?
          EmitOneIn,   \* print every history (1) or a 1/EmitOneIn sample of them, chosen by a function of the history itself
          EmitSalt     \* (so the sample does not depend on how TLC's workers are scheduled); EmitSalt varies the sample with the seed
VARIABLES heap, tops, sealed, env, next, hist

vars == <<heap, tops, sealed, env, next, hist>>
Id(k) == "n" \o ToString(k)
\* (long enough for every unrolling the guard of Apply admits to be COMPUTED before the guard rejects it: nested counts multiply)
Fresh == [k \in 1..(48 * MaxObjs + 64) |-> Id(next + k - 1)]

\* leaf template (link and home are filled by the action)
T(kind, qs, chans, dur, tag) == Leaf(kind, qs, chans, dur, tag, NoLink, None)
TX(kind, qs, chans, dur, tag, extra) == [T(kind, qs, chans, dur, tag) EXCEPT !.extra = extra]

Step(a, c, id, s, m, link, rep, key, val, what) ==
  [a |-> a, c |-> c, id |-> id, s |-> s, m |-> m, link |-> link, rep |-> rep, key |-> key, val |-> val, what |-> what, fm |-> <<>>]
\* copies: which generated identifier is the copy of which (lets later steps refer to operations inside a nested copy)
FMap(src, f) == [j \in 1..Len(src) |-> <<src[j], f[src[j]]>>]
NoM == T("", <<>>, <<>>, <<"fixed", 0>>, "")

Init == /\ heap = <<>> /\ tops = {} /\ sealed = {} /\ env = InitEnv /\ next = 1 /\ hist = <<>>

Open == tops \ sealed
\* objects the caller holds a handle on (returned by add); only those can be referred to by a later relation
Handles == {hist[j].id : j \in {k \in 1..Len(hist) : hist[k].a \in {"AddOp", "AddSub"}}}
             \cup UNION {{hist[j].fm[n][2] : n \in 1..Len(hist[j].fm)} : j \in 1..Len(hist)}
RefsIn(c) == IF DeepRefs THEN Subtree(heap, c) \ {c} ELSE Range(heap[c].kids)
EnvActs == {"SetDur", "SetRep", "Enter", "Leave"}
EnvBudget == Cardinality({j \in 1..Len(hist) : hist[j].a \in EnvActs}) < 3
ObsBudget == Cardinality({j \in 1..Len(hist) : hist[j].a = "Obs"}) < 2
CanStep == Len(hist) < MaxSteps

NewCircuit ==
  /\ "NewCircuit" \in Acts /\ CanStep /\ Cardinality(tops) < MaxCircs
  /\ \E rep \in Reps :
     \E link \in {NoLink} \cup {OneLink(r, t) : r \in Handles \cap UNION {Range(heap[c].kids) : c \in Open}, t \in LinkTypes} :
       /\ heap' = DoNewCircuit(heap, Id(next), link, rep)
       /\ tops' = tops \cup {Id(next)} /\ next' = next + 1
       /\ hist' = Append(hist, Step("NewCircuit", Id(next), Id(next), None, NoM, link, rep, "", 0, ""))
       /\ UNCHANGED <<sealed, env>>

AddOp ==
  /\ "AddOp" \in Acts /\ CanStep /\ Cardinality(DOMAIN heap) < MaxObjs
  /\ \E c \in Open, m \in Menu :
     /\ m \in Anchors \/ Cardinality({j \in 1..Len(hist) : hist[j].a = "AddOp" /\ hist[j].m \notin Anchors}) < MaxNonAnchor
     /\ \E given \in {NoLink} \cup {OneLink(r, t) : r \in Handles \cap RefsIn(c), t \in LinkTypes} :
          \E link \in AllowedLinks(heap, c, Range(m.chans), given) :
            /\ heap' = DoAddOp(heap, c, Id(next), m, link)
            /\ next' = next + 1
            /\ hist' = Append(hist, Step("AddOp", c, Id(next), None, m, given, <<"fixed", 1>>, "", 0, ""))
            /\ UNCHANGED <<tops, sealed, env>>

AddSub ==
  /\ "AddSub" \in Acts /\ CanStep
  /\ \E c \in Open : \E s \in tops \ {c} :
       /\ Cardinality(DOMAIN heap) + Cardinality(Subtree(heap, s)) <= MaxObjs
       /\ LET src == SubtreeSeq(heap, s)
              f   == [i \in Range(src) |-> Id(next + IndexIn(src, i) - 1)]
          IN \E link \in AllowedLinks(heap, c, ChansOf(heap, s), heap[s].link) :
               /\ heap' = DoAddSub(heap, c, s, f, link)
               /\ next' = next + Len(src)
               /\ hist' = Append(hist, [Step("AddSub", c, f[s], s, NoM, heap[s].link, heap[s].rep, "", 0, "") EXCEPT !.fm = FMap(src, f)])
       /\ UNCHANGED <<tops, sealed, env>>

CopyCirc ==
  /\ "CopyCirc" \in Acts /\ CanStep /\ Cardinality(tops) < MaxCircs
  /\ \E s \in tops :
       /\ Cardinality(DOMAIN heap) + Cardinality(Subtree(heap, s)) <= MaxObjs
       /\ LET src == SubtreeSeq(heap, s)
              f   == [i \in Range(src) |-> Id(next + IndexIn(src, i) - 1)]
          IN /\ heap' = DoCopyCirc(heap, s, f)
             /\ tops' = tops \cup {f[s]}
             /\ sealed' = IF s \in sealed THEN sealed \cup {f[s]} ELSE sealed
             /\ next' = next + Len(src)
             /\ hist' = Append(hist, [Step("CopyCirc", f[s], f[s], s, NoM, NoLink, <<"fixed", 1>>, "", 0, "") EXCEPT !.fm = FMap(src, f)])
       /\ UNCHANGED env

Apply ==
  /\ "Apply" \in Acts /\ CanStep
  /\ \E c \in Open :
       LET u == UnrollBlock(heap, env, c, Fresh, 0) IN
       /\ u.n <= 4 * MaxObjs
       /\ heap' = u.h /\ next' = next + u.n
       /\ sealed' = sealed \cup {c}
       /\ hist' = Append(hist, Step("Apply", c, None, None, NoM, NoLink, <<"fixed", 1>>, "", 0, ""))
       /\ UNCHANGED <<tops, env>>

\* a second application must change nothing (C06 idempotence); the specification's state is unchanged
Reapply ==
  /\ "Reapply" \in Acts /\ CanStep
  /\ \E c \in sealed \cap tops :
       /\ hist[Len(hist)].a # "Reapply"
       /\ hist' = Append(hist, Step("Reapply", c, None, None, NoM, NoLink, <<"fixed", 1>>, "", 0, ""))
       /\ UNCHANGED <<heap, tops, sealed, env, next>>

\* flatten: the nesting is removed, the leaves stay (which relations the flat operations carry is left open by the
\* properties; the generator keeps relations between leaves and drops the others)
FlatHeap(H, c) ==
  LET Ls == LeavesOf(H, c)  keep == Range(Ls) \cup (DOMAIN H \ Subtree(H, c)) IN
  [i \in keep \cup {c} |->
     IF i = c THEN [H[c] EXCEPT !.kids = Ls]
     ELSE IF i \in Range(Ls)
          THEN [H[i] EXCEPT !.home = c, !.link = IF H[i].link.k = "one" /\ H[i].link.ref \in Range(Ls) THEN H[i].link ELSE NoLink]
          ELSE H[i]]
Flatten ==
  /\ "Flatten" \in Acts /\ CanStep
  /\ \E c \in tops :
       \* (pending repetition counts are not consumed by flattening: every leaf is kept once, see FlatHeap)
       /\ (\E i \in Subtree(heap, c) : heap[i].t = "comp" /\ i # c) \/ hist[Len(hist)].a # "Flatten"
       /\ heap' = FlatHeap(heap, c)
       /\ sealed' = sealed \cup {c}
       /\ hist' = Append(hist, Step("Flatten", c, None, None, NoM, NoLink, <<"fixed", 1>>, "", 0, ""))
       /\ UNCHANGED <<tops, env, next>>

SetDur ==
  /\ "SetDur" \in Acts /\ CanStep /\ EnvBudget
  /\ \E v \in {2, 6, 10} :
       /\ env' = [env EXCEPT !.dreg = Append(@, <<"k1", v>>)]
       /\ Lookup(env.dreg, "k1", 0) # v
       /\ hist' = Append(hist, Step("SetDur", None, None, None, NoM, NoLink, <<"fixed", 1>>, "k1", v, ""))
       /\ UNCHANGED <<heap, tops, sealed, next>>
SetRep ==
  /\ "SetRep" \in Acts /\ CanStep /\ EnvBudget
  /\ \E v \in {2, 3} :
       /\ env' = [env EXCEPT !.rreg = Append(@, <<"r1", v>>)]
       /\ Lookup(env.rreg, "r1", 1) # v
       /\ hist' = Append(hist, Step("SetRep", None, None, None, NoM, NoLink, <<"fixed", 1>>, "r1", v, ""))
       /\ UNCHANGED <<heap, tops, sealed, next>>
Enter ==
  /\ "Enter" \in Acts /\ CanStep /\ EnvBudget /\ Len(env.glob) < 3
  /\ \E cfg \in Configs \ {CurGlobal(env)} :
       /\ env' = [env EXCEPT !.glob = Append(@, cfg)]
       /\ hist' = Append(hist, Step("Enter", None, None, None, NoM, NoLink, <<"fixed", 1>>, "", 0, ToJson(cfg)))
       /\ UNCHANGED <<heap, tops, sealed, next>>
Leave ==
  /\ "Leave" \in Acts /\ CanStep /\ EnvBudget /\ Len(env.glob) > 1
  /\ env' = [env EXCEPT !.glob = SubSeq(@, 1, Len(@) - 1)]
  /\ hist' = Append(hist, Step("Leave", None, None, None, NoM, NoLink, <<"fixed", 1>>, "", 0, ""))
  /\ UNCHANGED <<heap, tops, sealed, next>>

\* replace_operation on a flat circuit: a new circuit (extension, see Circuit.tla "masking")
AnyOf(k, allowed) == CHOOSE x \in allowed : TRUE
Mask ==
  /\ "Mask" \in Acts /\ CanStep /\ Cardinality(tops) < MaxCircs
  /\ \E c \in tops, ms \in Masks :
       /\ heap[c].kids # <<>> /\ IsFlat(heap, c)
       /\ Cardinality(DOMAIN heap) + Len(heap[c].kids) + 1 <= MaxObjs
       /\ \E j \in 1..Len(ms), k \in Range(heap[c].kids) : MaskMatches(ms[j], heap[k])          \* something is masked
       /\ LET src == heap[c].kids
              new == Id(next)
              f   == [i \in Range(src) |-> Id(next + IndexIn(src, i))]
          IN /\ heap' = DoMask(heap, c, src, new, f, ms, AnyOf)
             /\ tops' = tops \cup {new}
             /\ next' = next + Len(src) + 1
             /\ hist' = Append(hist, [Step("Mask", c, new, None, NoM, NoLink, <<"fixed", 1>>, "", 0, ToJson(ms)) EXCEPT !.fm = FMap(src, f)])
       /\ UNCHANGED <<sealed, env>>

Obs ==
  /\ "Obs" \in Acts /\ CanStep /\ ObsBudget /\ hist # <<>> /\ hist[Len(hist)].a # "Obs"
  /\ \E c \in tops, w \in ObsKinds :
       /\ heap[c].kids # <<>>
       /\ hist' = Append(hist, Step("Obs", c, None, None, NoM, NoLink, <<"fixed", 1>>, "", 0, w))
       /\ UNCHANGED <<heap, tops, sealed, env, next>>

Next == NewCircuit \/ AddOp \/ AddSub \/ CopyCirc \/ Apply \/ Reapply \/ Flatten \/ Mask \/ SetDur \/ SetRep \/ Enter \/ Leave \/ Obs
Spec == Init /\ [][Next]_vars

\* ---- emission of programs (generation role)
\* every history is a program: the replay observes every circuit once more at its end
Complete == Len(hist) >= MinEmit /\ hist[Len(hist)].a # "NewCircuit"
\* a deterministic stand-in for a random draw: a weighted sum over the numeric content of the steps
ActCode(a) == CASE a = "NewCircuit" -> 1 [] a = "AddOp" -> 2 [] a = "AddSub" -> 3 [] a = "CopyCirc" -> 4 [] a = "Apply" -> 5 [] a = "Reapply" -> 6
                [] a = "Flatten" -> 7 [] a = "Mask" -> 8 [] a = "SetDur" -> 9 [] a = "SetRep" -> 10 [] a = "Enter" -> 11 [] a = "Leave" -> 12 [] OTHER -> 13
StepCode(st) ==
  ActCode(st.a) + 3 * (IF st.link.k = "one" THEN (CASE st.link.rt = "FB" -> 1 [] st.link.rt = "JS" -> 2 [] OTHER -> 3) ELSE 0)
  + 5 * (LET q == st.m.qs IN IF q = <<>> THEN 0 ELSE q[1] + 2 * Len(q) + Len(st.m.chans))
  + 11 * (IF st.m.dur[1] = "fixed" THEN st.m.dur[2] ELSE IF st.m.dur[1] = "global" THEN 3 ELSE 5)
  + 17 * (IF st.rep[1] = "fixed" THEN st.rep[2] ELSE 7) + 19 * Len(st.fm) + 23 * st.val
HistCode(h) == LET F[j \in 0..Len(h)] == IF j = 0 THEN 0 ELSE F[j-1] + (13 * j + 7) * StepCode(h[j]) IN F[Len(h)]
Sampled == EmitOneIn = 1 \/ (HistCode(hist) + EmitSalt) % EmitOneIn = 0
EmitProgram == (Complete /\ Sampled) => PrintT(<<"PROGRAM", ToJson(hist)>>)
=============================================================================
