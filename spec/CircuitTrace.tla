---------------------------- MODULE CircuitTrace ----------------------------
(***************************************************************************)
(* Trace validation: executions of the real library (recorded by           *)
(* harness/replay.py / harness/tracer.py) are checked, event by event,     *)
(* against the actions of Circuit.tla and the clauses of Clauses.tla.      *)
(* A batch of traces is validated per TLC run.  The verdict is total: an   *)
(* event that violates a clause adds a record to `fails`, the abstract     *)
(* state is re-synchronised from what the code reported and validation     *)
(* continues.  The last step writes the verdict file.                      *)
(***************************************************************************)
EXTENDS Clauses, Json, IOUtils

Traces == JsonDeserialize(IOEnv.VERIF_IN)
VARIABLES tid, l, heap, env, applied, flats, fails, nobs, expect
vars == <<tid, l, heap, env, applied, flats, fails, nobs, expect>>

Clean(L) == [k |-> L.k, ref |-> L.ref, refs |-> L.refs, rt |-> L.rt]
F(clause, obj, info) == [clause |-> clause, obj |-> obj, info |-> ToString(info)]
Tag(fs) == {[tid |-> tid, l |-> l, clause |-> f.clause, obj |-> f.obj, info |-> ToString(f.info), memo |-> f.memo] : f \in fs}
HasMulti(H, c) == \E n \in Range(H[c].kids) : H[n].link.k = "multi"

\* ------------------------------------------------------------------ AddOp
AddOpEv(e) ==
  LET rec   == [Leaf(e.rec.kind, e.rec.qs, e.rec.chans, e.rec.dur, e.rec.tag, NoLink, None) EXCEPT !.extra = e.rec.extra]
      known == e.c \in DOMAIN heap
      after == Clean(e.after)
      given == Clean(e.given)
      cl    == IF ~known THEN {Fail("C02.unknown_circuit", e.c, <<>>)}
               ELSE (IF GivenIsValid(heap, e.c, given)
                     THEN When(after = given, Fail("C01.given", e.id, <<"given", given, "reported", after>>))
                     ELSE IF given.k = "none" /\ ~HasMulti(heap, e.c)
                          THEN When(after \in ImplicitLinks(heap, e.c, Range(e.rec.chans)),
                                    Fail("C01.implicit", e.id, <<"reported", after, "allowed", ImplicitLinks(heap, e.c, Range(e.rec.chans))>>))
                          ELSE {})
                    \cup When(e.ret_same /\ e.last_same, Fail("C02.return", e.id, <<e.ret_same, e.last_same>>))
  IN /\ heap' = IF known THEN DoAddOp(heap, e.c, e.id, rec, after) ELSE heap
     /\ fails' = fails \cup Tag(cl)
     /\ UNCHANGED <<env, applied, flats, nobs, expect>>

\* ----------------------------------------------------------------- AddSub
CmapFn(cm, src, new) ==
  LET ok == {j \in 1..Len(cm) : cm[j][2] \in src /\ cm[j][1] \in new} IN
  [i \in {cm[j][2] : j \in ok} |-> cm[CHOOSE j \in ok : cm[j][2] = i][1]]
MapOK(f, src, new) == DOMAIN f = src /\ {f[i] : i \in DOMAIN f} = new /\ \A a, b \in DOMAIN f : a # b => f[a] # f[b]

\* C05: the copy is faithful -- attributes, repetition terms and relations (re-pointed to the copied operations) as
\* reported by the new objects right after the copy, compared with the specification's source objects
\* position of a new object in the order in which the copies were made
CopyPos(e, n) == CHOOSE j \in 1..Len(e.cmap) : e.cmap[j][1] = n
\* the copy of a group relation lacks exactly those members that were copied only AFTER the referring operation
LateMembersOnly(e, n, want, got) ==
  /\ want.k = "multi" /\ got.k \in {"multi", "none"}
  /\ Range(got.refs) \subseteq {e.cmap[j][1] : j \in 1..Len(e.cmap)}
  /\ \A m \in Range(want.refs) \ Range(got.refs) : CopyPos(e, m) > CopyPos(e, n)
  /\ \A m \in Range(got.refs) : CopyPos(e, m) < CopyPos(e, n)
\* after such a deviation the specification continues from the relation the copy actually carries
Resync(e, H, f) ==
  [x \in DOMAIN H |->
     IF x \in {f[i] : i \in DOMAIN f} /\ H[x].link.k = "multi" /\ x \in DOMAIN e.links
        /\ LateMembersOnly(e, x, H[x].link, Clean(e.links[x])) /\ Clean(e.links[x]) # H[x].link
     THEN [H[x] EXCEPT !.link = Clean(e.links[x])] ELSE H[x]]

IsoClauses(e, f, root) ==
  UNION {LET n == f[i]  r == e.recs[n]  src == heap[i] IN
         (IF src.t = "op"
          THEN When(r.t = "op" /\ r.kind = src.kind /\ r.qs = src.qs /\ r.chans = src.chans /\ r.dur = src.dur /\ r.tag = src.tag /\ r.extra = src.extra,
                    Fail("C05.iso.attrs", n, <<"copy", r, "source", i, src.kind, src.qs, src.chans, src.dur, src.tag, src.extra>>))
          ELSE When(r.t = "comp" /\ r.rep = src.rep, Fail("C05.iso.rep", n, <<"copy", r, "source", src.rep>>)))
         \cup (IF i = root THEN {}
               ELSE LET want == MapLink(src.link, f)  got == Clean(e.links[n]) IN
                    \* a group relation ("after the latest of these") must keep every member the specification's group has
                    When(IF want.k = "multi" THEN got.k = "multi" /\ got.rt = want.rt /\ Range(want.refs) \subseteq Range(got.refs)
                                                   /\ Range(got.refs) \subseteq {f[x] : x \in DOMAIN f}
                         ELSE got = want,
                         Fail(IF LateMembersOnly(e, n, want, got) THEN "C05.iso.link.late_member" ELSE "C05.iso.link", n,
                              <<"copy reports", got, "source", i, src.link, "expected", want>>)))
         : i \in DOMAIN f}

AddSubEv(e) ==
  LET known == e.c \in DOMAIN heap /\ e.s \in DOMAIN heap
      src   == IF known THEN Subtree(heap, e.s) ELSE {}
      new   == DOMAIN e.tree
      f     == CmapFn(e.cmap, src, new)
      ok    == known /\ MapOK(f, src, new)
      given == IF known THEN heap[e.s].link ELSE NoLink
      after == Clean(e.after)
      cl    == (IF e.how = "add" THEN When(ok, Fail("C05.map", e.id, <<"sources", src, "copied", DOMAIN f, "nested", new>>)) ELSE {})
               \cup (IF e.how = "add" /\ ok THEN IsoClauses(e, f, e.s) ELSE {})
               \cup (IF ~known THEN {}
                     ELSE IF GivenIsValid(heap, e.c, given)
                          THEN When(after = given, Fail("C01.given.sub", e.id, <<"given", given, "reported", after>>))
                          ELSE IF given.k = "none" /\ ~HasMulti(heap, e.c)
                               THEN When(after \in ImplicitLinks(heap, e.c, ChansOf(heap, e.s)),
                                         Fail("C01.implicit.sub", e.id, <<"reported", after, "allowed", ImplicitLinks(heap, e.c, ChansOf(heap, e.s))>>))
                               ELSE {})
               \cup When(e.last_same, Fail("C02.return", e.id, <<>>))
  IN /\ heap' = IF e.how = "struct" /\ known
                THEN AppendKid([heap EXCEPT ![e.s].home = e.c, ![e.s].link = after], e.c, e.s)
                ELSE IF ok THEN Resync(e, DoAddSub(heap, e.c, e.s, f, IF GivenIsValid(heap, e.c, given) THEN given ELSE after), f) ELSE heap
                \* (a valid given relation is what the specification continues with, whatever the implementation reports)
     /\ fails' = fails \cup Tag(cl)
     \* a circuit that gains a block with a pending count is no longer "modifier-applied"
     /\ applied' = IF known /\ \E b \in Blocks(heap, e.s) : EvalRep(env, heap[b].rep) # 1 THEN applied \ {e.c} ELSE applied
     /\ UNCHANGED <<env, flats, nobs, expect>>

CopyCircEv(e) ==
  LET known == e.s \in DOMAIN heap
      src   == IF known THEN Subtree(heap, e.s) ELSE {}
      new   == DOMAIN e.tree
      f     == CmapFn(e.cmap, src, new)
      ok    == known /\ MapOK(f, src, new)
  IN /\ heap' = IF ok THEN Resync(e, DoCopyCirc(heap, e.s, f), f) ELSE heap
     /\ fails' = fails \cup Tag(When(ok, Fail("C05.map", e.id, <<"sources", src, "copied", DOMAIN f, "new", new>>))
                               \cup (IF ok THEN IsoClauses(e, f, "") ELSE {}))
     /\ applied' = IF e.s \in applied THEN applied \cup {e.id} ELSE applied
     /\ UNCHANGED <<env, flats, nobs, expect>>

\* ------------------------------------------------------------------ Apply
ApplyEv(e) ==
  LET c == e.c
      H == heap
      pre == IF c \in DOMAIN H THEN Subtree(H, c) ELSE {}
      newIds == {e.new[j].id : j \in 1..Len(e.new)}
      N(i) == e.new[CHOOSE j \in 1..Len(e.new) : e.new[j].id = i]
      inst(i) == IF i \in newIds THEN N(i).inst ELSE 0
      from(i) == N(i).from
      tree == e.tree
      \* image of r in the copy instance of n
      Img(r, n) == {m \in newIds : N(m).from = r /\ N(m).inst = N(n).inst}
      \* the block's first content and its relation leaves; copy j+1 is chained behind the image of those in copy j
      KidsAt(X, g) == {m \in Range(tree[X].kids) : inst(m) = g}
      FirstInst(X) == MinOf({inst(m) : m \in Range(tree[X].kids)})
      PrevInst(n)  == MaxOf({inst(m) : m \in {x \in Range(tree[tree[n].home].kids) : inst(x) < inst(n)}})
      RECURSIVE LinkAfter(_)
      BaseLeaves(X) ==
        LET K1 == KidsAt(X, FirstInst(X))
            referred == {LinkAfter(m).ref : m \in {x \in K1 : LinkAfter(x).k = "one"}}
                          \cup UNION {Range(LinkAfter(m).refs) : m \in {x \in K1 : LinkAfter(x).k = "multi"}}
        IN K1 \ referred
      ExpectedGroup(n) ==
        LET X == tree[n].home  g == PrevInst(n) IN
        IF g = FirstInst(X) THEN BaseLeaves(X) ELSE {m \in KidsAt(X, g) : from(m) \in BaseLeaves(X)}
      LinkAfter(i) ==
        IF i \notin newIds THEN H[i].link
        ELSE LET fr == from(i)  L == LinkAfter(fr)
                 mapped == CASE L.k = "one"   -> (IF Img(L.ref, i) # {} THEN OneLink(CHOOSE m \in Img(L.ref, i) : TRUE, L.rt) ELSE NoLink)
                             [] L.k = "multi" -> MultiLink(SelectSeq([j \in 1..Len(L.refs) |->
                                                     IF Img(L.refs[j], i) # {} THEN CHOOSE m \in Img(L.refs[j], i) : TRUE ELSE None],
                                                     LAMBDA x : x # None))
                             [] OTHER -> NoLink
             IN IF tree[i].home = tree[fr].home /\ mapped.k = "none"
                THEN MultiLink(SetToSeq(ExpectedGroup(i)))    \* first operations of an appended copy: chained behind the
                ELSE mapped                                   \* relation leaves of the copy before it (C06)
      H2 == [i \in (DOMAIN H \ pre) \cup DOMAIN tree |->
               IF i \notin DOMAIN tree THEN H[i]
               ELSE IF i \in newIds
                    THEN [H[N(i).origin] EXCEPT !.link = LinkAfter(i), !.home = tree[i].home, !.kids = tree[i].kids, !.rep = <<"fixed", 1>>]
                    ELSE [H[i] EXCEPT !.kids = tree[i].kids, !.rep = <<"fixed", 1>>]]
      preLeaves == IF c \in DOMAIN H THEN Range(LeavesOf(H, c)) ELSE {}
      appended == {i \in newIds : tree[i].home = tree[from(i)].home /\ H2[i].link.k = "multi"}
      wellformedNew == /\ c \in DOMAIN H
                       /\ \A j \in 1..Len(e.new) : e.new[j].origin \in pre /\ e.new[j].from \in DOMAIN tree /\ e.new[j].id \in DOMAIN tree
                       /\ \A i \in DOMAIN tree : i \in newIds \/ i \in pre            \* nothing in the circuit the specification has never seen
      cl == IF ~wellformedNew THEN {Fail("C06.origin", c, <<"after apply_modifiers the circuit holds objects that are neither known nor copies of known ones">>)}
            ELSE
            When(e.same_structure, Fail("C06.inplace", c, <<>>))
            \cup UNION {When(i \in DOMAIN tree /\ tree[i].home = H[i].home,
                             Fail("C06.others", i, <<"object removed or moved by apply_modifiers">>)) : i \in pre}
            \cup UNION {LET got == Cardinality({n \in newIds : N(n).origin = o}) + 1
                            want == Multiplicity(H, env, c, o) IN
                        When(got = (IF want < 1 THEN 1 ELSE want), Fail("C06.count", o, <<"occurrences", got, "expected", want>>))
                        : o \in preLeaves}
            \* advisory (model drift, not a property verdict): the group the code recorded covers the specification's
            \cup UNION {LET R == Clean(e.links[n]) IN
                        When(R.k = "multi" /\ Range(H2[n].link.refs) \subseteq Range(R.refs),
                             Fail("D06.chain.group", n, <<"recorded", R, "specification", H2[n].link.refs>>))
                        : n \in appended}
            \* idempotent: nothing pending (every count is 1) => applying creates nothing
            \cup (IF c \in applied /\ \A b \in Blocks(H, c) : EvalRep(env, H[b].rep) = 1
                  THEN When(e.new = <<>>, Fail("C06.idempotent", c, <<"second application created", Len(e.new)>>)) ELSE {})
            \* C08: exporting before or after unrolling gives the same multiset of instructions and the same number of measurements
            \* (the exporters do not repeat the top-level circuit itself, so this is stated for circuits whose own count is 1)
            \cup (IF e.stim_before.status = "ok" /\ e.stim_after.status = "ok" /\ EvalRep(env, H[c].rep) = 1
                  THEN When(Multiset(e.stim_before.flat) = Multiset(e.stim_after.flat), Fail("C08.multiset", c, <<Len(e.stim_before.flat), Len(e.stim_after.flat)>>))
                       \cup When(CountM(e.stim_before.flat) = CountM(e.stim_after.flat), Fail("C08.nmeas", c, <<CountM(e.stim_before.flat), CountM(e.stim_after.flat)>>))
                  ELSE {})
  IN /\ heap' = IF wellformedNew THEN H2 ELSE heap
     /\ fails' = fails \cup Tag(cl)
     /\ applied' = applied \cup {c}
     /\ UNCHANGED <<env, flats, nobs, expect>>

\* ------------------------------------------------------------------- Mask
\* extension (advisory clauses E05.*): replace_operation rebuilt circuit c as circuit e.id
MaskEv(e) ==
  LET c == e.c  H == heap  new == e.id
      known == c \in DOMAIN H /\ IsFlat(H, c) /\ new \notin DOMAIN H
      \* the order of rebuilding is the listing the code iterated over (any listing of c: C02 decides whether it is a good one)
      src == IF known THEN [k \in 1..Len(e.pairs) |-> e.pairs[k][2]] ELSE <<>>
      paired == /\ known /\ e.n_old = Len(src) /\ e.n_new = Len(src) /\ Len(H[c].kids) = Len(src) /\ Range(src) = Range(H[c].kids)
                /\ (\A k \in 1..Len(src) : e.pairs[k][1] \in DOMAIN e.tree /\ e.pairs[k][1] \notin DOMAIN H)
                /\ Cardinality({e.pairs[k][1] : k \in 1..Len(src)}) = Len(src)
                /\ e.tree[new].kids = [k \in 1..Len(src) |-> e.pairs[k][1]]
      f == [i \in Range(src) |-> e.pairs[IndexIn(src, i)][1]]
      Reported(kk, allowed) == LET L == Clean(e.links[e.pairs[kk][1]]) IN IF L \in allowed THEN L ELSE CHOOSE x \in allowed : TRUE
      H2 == IF paired THEN DoMask(H, c, src, new, f, e.masks, Reported) ELSE H
      cl == IF ~known THEN {Fail("E05.mask.source", c, <<"not a known flat circuit">>)}
            ELSE IF ~paired THEN {Fail("E05.mask.count", c, <<"operations", Len(src), "listed", e.n_old, "rebuilt", e.n_new>>)}
            ELSE UNION {LET n == e.pairs[k][1]  want == H2[n]  got == e.recs[n] IN
                        When(got.kind = want.kind, Fail("E05.mask.kind", n, <<"source", H[src[k]].kind, "rebuilt", got.kind, "expected", want.kind>>))
                        \cup When(got.qs = want.qs, Fail("E05.mask.qubits", n, <<got.qs, want.qs>>))
                        \cup When(got.dur = want.dur, Fail("E05.mask.duration", n, <<got.dur, want.dur>>))
                        \cup When(Range(got.chans) = Range(want.chans), Fail("E05.mask.channels", n, <<got.chans, want.chans>>))
                        \cup When(Clean(e.links[n]) = want.link, Fail("E05.mask.link", n, <<"reported", Clean(e.links[n]), "expected", want.link>>))
                        : k \in 1..Len(src)}
      \* the specification continues from what the code built (the rebuilt circuit is an input, like an adopted structure)
      R == [i \in DOMAIN e.tree |->
              IF e.tree[i].t = "comp"
              THEN [Comp(Clean(e.links[i]), e.recs[i].rep, e.tree[i].home, e.tree[i].kids) EXCEPT !.home = IF i = new THEN None ELSE e.tree[i].home]
              ELSE [Leaf(e.recs[i].kind, e.recs[i].qs, e.recs[i].chans, e.recs[i].dur, e.recs[i].tag, Clean(e.links[i]), e.tree[i].home)
                      EXCEPT !.extra = e.recs[i].extra]]
  IN /\ heap' = IF new \in DOMAIN H THEN H ELSE Extend(H, R)
     /\ fails' = fails \cup Tag(cl)
     /\ UNCHANGED <<env, applied, flats, nobs, expect>>

\* ---------------------------------------------------------------- Flatten
FlattenEv(e) ==
  LET c == e.c
      H == heap
      pre == Subtree(H, c)
      leaves == Range(LeavesOf(H, c))
      tree == e.tree
      got == Range(tree[c].kids)
      cl == When(got = leaves /\ Len(tree[c].kids) = Cardinality(leaves),
                 Fail("C11.multiset", c, <<"lost", leaves \ got, "extra", got \ leaves, "entries", Len(tree[c].kids)>>))
            \cup When(\A i \in DOMAIN tree : i = c \/ tree[i].t = "op", Fail("C11.nocomposite", c, <<>>))
            \cup When(e.same_structure, Fail("C11.inplace", c, <<>>))
            \* a modifier-applied circuit (no pending count) exports the same instructions before and after flattening (as a
            \* multiset: which relation a flat operation carries, hence the order, is left open for arbitrary programs)
            \cup (IF c \in applied /\ e.stim_before.status = "ok" /\ e.stim_after.status = "ok"
                  THEN When(Multiset(e.stim_before.flat) = Multiset(e.stim_after.flat),
                            Fail("C11.stim.multiset", c, <<"exported before", Len(e.stim_before.flat), "after flattening", Len(e.stim_after.flat)>>))
                  ELSE {})
            \cup (IF c \in flats
                  THEN When(tree[c].kids = H[c].kids /\ \A i \in got \cap leaves : Clean(e.links[i]) = H[i].link,
                            Fail("C11.idempotent", c, <<"second flatten changed the circuit">>))
                  ELSE {})
      ok == got \subseteq leaves
      H2 == [i \in (DOMAIN H \ pre) \cup {c} \cup got |->
               IF i = c THEN [H[c] EXCEPT !.kids = tree[c].kids]
               ELSE IF i \in got THEN [H[i] EXCEPT !.home = c, !.link = Clean(e.links[i])]
               ELSE H[i]]
  IN /\ heap' = IF ok THEN H2 ELSE heap
     /\ fails' = fails \cup Tag(cl)
     /\ flats' = flats \cup {c}
     /\ UNCHANGED <<env, applied, nobs, expect>>

\* -------------------------------------------------------------------- Obs
\* observations other than the full battery carry no data to judge; their effect (none is allowed) shows in later batteries
LightObsEv(e) == UNCHANGED <<heap, env, applied, flats, fails, nobs, expect>>

\* C18: the drawing shows the schedule.  Rows = requested order followed by the remaining occupied channels; labels; width =
\* max(1, latest end) + 1; every component sits at the start time of its operation under the drawing's durations (compact
\* drawing uses its own global durations) on the rows of its qubits; an unknown channel in the order is rejected.
VisGlobal == [RO |-> 8, MW |-> 4, FL |-> 4, RST |-> 8]
FirstRowOnly == {"CoordinateShiftOperation"}                     \* multi-qubit annotation drawn by the default component on its first channel
NotDrawn == {"TwoQubitVirtualPhase", "TwoQubitOperation"}      \* two-qubit kinds the drawer has no component for
DrawEv(e) ==
  LET d == e.draw  c == e.c  H == heap
      E == IF d.compact THEN [env EXCEPT !.glob = Append(@, VisGlobal)] ELSE env
      leaves == LeavesOf(H, c)
      valid == Range(d.order) \subseteq Range(d.occupied)
      rows == d.order \o SelectSeq(d.occupied, LAMBDA x : x \notin Range(d.order))
      lab(ch) == LET m == {j \in 1..Len(d.labels) : d.labels[j][1] = ch} IN IF m = {} THEN ToString(ch) ELSE d.labels[CHOOSE j \in m : TRUE][2]
      rowOf(qb) == LET m == {j \in 1..Len(d.rows) : d.rows[j] = qb} IN IF m = {} THEN 0 ELSE CHOOSE j \in m : TRUE     \* 0: the qubit has no row
      maxEnd == IF Range(leaves) = {} THEN 0 ELSE MaxOf({EndOf(H, E, i) : i \in Range(leaves)})
      maxEndR == IF d.reported = <<>> THEN maxEnd ELSE MaxOf({d.reported[j][3] : j \in 1..Len(d.reported)})
      cl ==
        IF ~valid THEN When(d.result = "rejected", Fail("C18.reject", c, <<"order", d.order, "occupied", d.occupied, "result", d.result>>))
        ELSE IF d.result # "ok" THEN {Fail("C18.success", c, d.result)}
        ELSE When(d.rows = rows, Fail("C18.rows", c, <<"rows", d.rows, "expected", rows>>))
             \cup When(d.label_map = [j \in 1..Len(d.rows) |-> <<j - 1, lab(d.rows[j])>>], Fail("C18.labels", c, d.label_map))
             \cup When(d.width = (IF maxEnd > 4 THEN maxEnd ELSE 4) + 4,
                       [Fail("C18.width", c, <<"width", d.width, "latest end", maxEnd, "latest reported end", maxEndR>>)
                          EXCEPT !.memo = d.width = (IF maxEndR > 4 THEN maxEndR ELSE 4) + 4])
             \cup When(Range(d.ops) = Range(leaves), Fail("C18.operations", c, <<Len(d.ops), Cardinality(Range(leaves))>>))
             \* every drawn component is one operation at its start time / extent / rows, and every operation of a kind the drawer
             \* renders has its component (components are not emitted in listing order: compare as multisets)
             \cup (IF Range(d.ops) \subseteq DOMAIN H /\ d.rows = rows
                   THEN LET drawn == {o \in Range(d.ops) : H[o].kind \notin NotDrawn}
                            placeOf(o) == LET rs == IF H[o].kind \in FirstRowOnly THEN {rowOf(H[o].qs[1])} ELSE {rowOf(H[o].qs[j]) : j \in 1..Len(H[o].qs)} IN
                                         [x |-> StartOf(H, E, o), y10 |-> -((MaxOf(rs) - 1) * 12) - 5, h10 |-> (MaxOf(rs) - MinOf(rs)) * 12 + 10]
                            pos(cp) == [x |-> cp.x, y10 |-> cp.y10, h10 |-> cp.h10]     \* horizontal position and rows (the drawn width is the icon's business)
                            vals == {placeOf(o) : o \in drawn} \cup {pos(d.comps[k]) : k \in 1..Len(d.comps)}
                            nExp(v) == Cardinality({o \in drawn : placeOf(o) = v})
                            nGot(v) == Cardinality({k \in 1..Len(d.comps) : pos(d.comps[k]) = v})
                            \* the same with the start times the circuit itself reported while it was being drawn
                            repStart(o) == LET m == {j \in 1..Len(d.reported) : d.reported[j][1] = o} IN IF m = {} THEN StartOf(H, E, o) ELSE d.reported[CHOOSE j \in m : TRUE][2]
                            placeR(o) == [placeOf(o) EXCEPT !.x = repStart(o)]
                            agreesWithReport == \A v \in {placeR(o) : o \in drawn} \cup {pos(d.comps[k]) : k \in 1..Len(d.comps)} :
                                                   Cardinality({o \in drawn : placeR(o) = v}) = nGot(v)
                        IN UNION {When(nExp(v) = nGot(v), [Fail("C18.x", c, <<"placement", v, "operations there", nExp(v), "components there", nGot(v)>>)
                                                             EXCEPT !.memo = agreesWithReport]) : v \in vals}
                   ELSE {})
  IN /\ fails' = fails \cup Tag(IF c \in DOMAIN heap THEN cl ELSE {})
     /\ UNCHANGED <<heap, env, applied, flats, nobs, expect>>
\* library circuits, observed as constructed / unrolled / flattened: the later observation is compared with the earlier one
\* it names (event index in the same trace)
KindSeq(S) == [j \in 1..Len(S.order) |-> Ins(S.leaves[S.order[j]].kind, [k \in 1..Len(S.leaves[S.order[j]].qs) |-> Qt(S.leaves[S.order[j]].qs[k])], <<>>)]
TimesOf(S) == [i \in DOMAIN S.leaves |-> <<S.leaves[i].start_c, S.leaves[i].dur_v>>]
IdxOf(S)   == [i \in DOMAIN S.leaves |-> <<S.leaves[i].acq_q, S.leaves[i].acq_c>>]
\* Named deviation S13: only the position of coordinate-shift annotations differs between the two listings / programs
\* (with five or more cycles -- the block is unrolled three or more times -- the barrier that closes the detector block moves
\* along with the coordinate shift: both are listed after the following round, timing and measurement record unchanged)
NoShift(s) == SelectSeq(s, LAMBDA x : x.name \notin {"SHIFT_COORDS", "CoordinateShiftOperation", "TICK", "Barrier"})
Variant(base, a, b) == IF NoShift(a) = NoShift(b) THEN base \o ".shift_moved" ELSE base
LibraryClauses(e) ==
  IF "phase" \notin DOMAIN e \/ e.compare = 0 THEN {}
  ELSE LET p == Traces[tid][e.compare]  A == p.snap  B == e.snap
           relinked == (e.c \o "#relinked") \in DOMAIN expect                \* S14: before flattening an operation referred to a block
           R(name) == IF relinked THEN name \o ".relinked" ELSE name IN
       IF e.phase = "unrolled"
       THEN When(A.stim.status # "ok" \/ B.stim.flat = A.stim.flat,
                 Fail(Variant("C08.identical", A.stim.flat, B.stim.flat), e.c, <<"exported instructions before", Len(A.stim.flat), "after unrolling", Len(B.stim.flat)>>))
       ELSE IF e.phase = "flattened"
       THEN When(B.order = A.order, Fail(R(Variant("C11.library.listing", KindSeq(A), KindSeq(B))), e.c, <<"listing order changed by flatten">>))
            \cup When(DOMAIN A.leaves # DOMAIN B.leaves \/ TimesOf(B) = TimesOf(A), Fail(R("C11.library.schedule"), e.c, <<"schedule changed by flatten">>))
            \cup When(DOMAIN A.leaves # DOMAIN B.leaves \/ IdxOf(B) = IdxOf(A), Fail(R("C11.library.indices"), e.c, <<"acquisition indices changed by flatten">>))
            \cup When(A.stim.status # "ok" \/ B.stim.flat = A.stim.flat, Fail(R(Variant("C11.library.stim", A.stim.flat, B.stim.flat)), e.c, <<"exported program changed by flatten">>))
       ELSE {}
HasLinkToBlock(H, c) == \E i \in Subtree(H, c) \ {c} : H[i].link.k = "one" /\ H[i].link.ref \in DOMAIN H /\ H[H[i].link.ref].t = "comp"
\* C06 for library circuits: the unrolled listing is exactly every block's listing repeated its count; the expectation is
\* computed from the heap at the "constructed" observation and carried to the "unrolled" one in `expect`
ObsEv(e) ==
  LET known == e.c \in DOMAIN heap
      cl == IF known THEN ObsClausesMarked(heap, env, e.c, e.snap, [applied |-> e.c \in applied, implicit |-> e.implicit]) ELSE {Fail("C02.unknown_circuit", e.c, <<>>)}
      lib == IF known THEN LibraryClauses(e) ELSE {}
      concat == IF known /\ "phase" \in DOMAIN e /\ e.phase = "unrolled" /\ e.c \in DOMAIN expect
                THEN When(KindSeq(e.snap) = expect[e.c], Fail(Variant("C06.concat", KindSeq(e.snap), expect[e.c]), e.c, <<"unrolled listing", Len(e.snap.order), "n-fold concatenation", Len(expect[e.c])>>))
                ELSE {}
  IN /\ fails' = fails \cup Tag(cl \cup lib \cup concat)
     /\ expect' = IF known /\ "phase" \in DOMAIN e /\ e.phase = "constructed"
                   THEN [x \in DOMAIN expect \cup {e.c} |-> IF x = e.c THEN ExpandedListing(heap, env, e.snap, e.c) ELSE expect[x]]
                   ELSE IF known /\ "phase" \in DOMAIN e /\ e.phase = "unrolled" /\ HasLinkToBlock(heap, e.c)
                        THEN [x \in DOMAIN expect \cup {(e.c \o "#relinked")} |-> IF x = (e.c \o "#relinked") THEN <<>> ELSE expect[x]]
                        ELSE expect
     /\ nobs' = nobs + 1
     /\ UNCHANGED <<heap, env, applied, flats>>

EnvEv(e) ==
  /\ env' = CASE e.ev = "SetDur" -> [env EXCEPT !.dreg = Append(@, <<e.key, e.val>>)]
              [] e.ev = "SetRep" -> [env EXCEPT !.rreg = Append(@, <<e.key, e.val>>)]
              [] e.ev = "Enter"  -> [env EXCEPT !.glob = Append(@, e.cfg)]
              [] e.ev = "Leave"  -> [env EXCEPT !.glob = SubSeq(@, 1, Len(@) - 1)]
  /\ UNCHANGED <<heap, applied, flats, fails, nobs, expect>>

\* a structure built outside the recorded calls is taken as it stands (content and reported relations are inputs)
AdoptEv(e) ==
  LET new == DOMAIN e.tree \ DOMAIN heap
      R == [i \in new |->
              IF e.tree[i].t = "comp"
              THEN [Comp(Clean(e.links[i]), e.recs[i].rep, e.tree[i].home, e.tree[i].kids) EXCEPT !.home = IF i = e.c THEN None ELSE e.tree[i].home]
              ELSE [Leaf(e.recs[i].kind, e.recs[i].qs, e.recs[i].chans, e.recs[i].dur, e.recs[i].tag, Clean(e.links[i]), e.tree[i].home)
                      EXCEPT !.extra = e.recs[i].extra]]
  IN /\ heap' = Extend(heap, R)
     /\ UNCHANGED <<env, applied, flats, fails, nobs, expect>>

ErrorEv(e) ==
  /\ fails' = fails \cup Tag({Fail("C00.exception", e.a, <<e.exc, e.msg>>)})
  /\ UNCHANGED <<heap, env, applied, flats, nobs, expect>>

Init == tid = 1 /\ l = 1 /\ heap = <<>> /\ env = InitEnv /\ applied = {} /\ flats = {} /\ fails = {} /\ nobs = 0 /\ expect = <<>>

Step ==
  /\ tid <= Len(Traces) /\ l <= Len(Traces[tid])
  /\ LET e == Traces[tid][l] IN
       CASE e.ev = "NewCircuit" -> /\ heap' = DoNewCircuit(heap, e.c, Clean(e.link), e.rep)
                                   /\ UNCHANGED <<env, applied, flats, fails, nobs, expect>>
         [] e.ev = "Adopt"    -> AdoptEv(e)
         [] e.ev = "AddOp"    -> AddOpEv(e)
         [] e.ev = "AddSub"   -> AddSubEv(e)
         [] e.ev = "CopyCirc" -> CopyCircEv(e)
         [] e.ev = "Apply"    -> ApplyEv(e)
         [] e.ev = "Flatten"  -> FlattenEv(e)
         [] e.ev = "Mask"     -> MaskEv(e)
         [] e.ev = "Obs" /\ e.what = "full" -> ObsEv(e)
         [] e.ev = "Obs" /\ e.what \in {"draw", "drawnc"} -> DrawEv(e)
         [] e.ev = "Obs" /\ e.what \notin {"full", "draw", "drawnc"} -> LightObsEv(e)
         [] e.ev \in {"SetDur", "SetRep", "Enter", "Leave"} -> EnvEv(e)
         [] e.ev = "Error"    -> ErrorEv(e)
         [] OTHER -> /\ fails' = fails \cup Tag({Fail("C00.unknown_event", e.ev, <<>>)}) /\ UNCHANGED <<heap, env, applied, flats, nobs, expect>>
  /\ l' = l + 1 /\ tid' = tid

NextTrace ==
  /\ tid <= Len(Traces) /\ l = Len(Traces[tid]) + 1
  /\ tid' = tid + 1 /\ l' = 1 /\ heap' = <<>> /\ env' = InitEnv /\ applied' = {} /\ flats' = {} /\ expect' = <<>>
  /\ UNCHANGED <<fails, nobs>>

Done ==
  /\ tid = Len(Traces) + 1 /\ l = 1
  /\ JsonSerialize(IOEnv.VERIF_OUT, [traces |-> Len(Traces), nobs |-> nobs, fails |-> SetToSeq(fails)])
  /\ l' = 2 /\ UNCHANGED <<tid, heap, env, applied, flats, fails, nobs, expect>>

Next == Step \/ NextTrace \/ Done
Spec == Init /\ [][Next]_vars
=============================================================================
