------------------------------ MODULE Clauses ------------------------------
(***************************************************************************)
(* The property clauses of C01-C07/C11 as predicates over                  *)
(*   H  the abstract heap of Circuit.tla (who refers to whom, who contains *)
(*      whom, duration terms),                                             *)
(*   E  the duration environment,                                          *)
(*   S  one observation battery ("snapshot") of a circuit c: listing order,*)
(*      and for every leaf / block its reported start, end, duration,      *)
(*      indices.                                                           *)
(* The SAME operators are evaluated (a) by the model checker on snapshots  *)
(* computed from the constructive semantics of Circuit.tla (MCCircuit: the *)
(* clause set is satisfiable and agrees with the semantics) and (b) by the *)
(* trace specification on snapshots recorded from the real library.        *)
(* Every clause returns a set of failure records; the verdict is total.    *)
(***************************************************************************)
EXTENDS Export

Fail(clause, obj, info) == [clause |-> clause, obj |-> obj, info |-> info, memo |-> FALSE]
When(cond, f) == IF cond THEN {} ELSE {f}

\* ---- access to a snapshot
InSnap(S, i) == i \in DOMAIN S.leaves \/ i \in DOMAIN S.comps
Rec(S, i)    == IF i \in DOMAIN S.leaves THEN S.leaves[i] ELSE S.comps[i]
Pos(S, i)    == S.leaves[i].pos
LeafSet(H, i) == IF i \in DOMAIN H THEN Range(LeavesOf(H, i)) ELSE {i}      \* total: an object the specification has never seen is its own leaf

\* --------------------------------------------------------------------- C02
C02Complete(H, c, S) ==
  LET want == LeafSet(H, c)  got == DOMAIN S.leaves IN
  When(got = want /\ Len(S.order) = Cardinality(want) /\ Range(S.order) = want,
       Fail("C02.complete", c, <<"missing", want \ got, "unexpected", got \ want, "listed", Len(S.order)>>))
  \cup UNION {When(S.leaves[i].kind = H[i].kind /\ S.leaves[i].qs = H[i].qs /\ S.leaves[i].dur = H[i].dur
                     /\ S.leaves[i].tag = H[i].tag,
                   Fail("C02.attrs", i, <<S.leaves[i].kind, S.leaves[i].qs, S.leaves[i].dur>>))
              : i \in DOMAIN S.leaves \cap want}
  \cup When(\A j \in 1..Len(S.order) : S.leaves[S.order[j]].pos = j, Fail("C02.positions", c, <<>>))
C02Stable(c, S) == When(S.order = S.order2, Fail("C02.stable", c, <<S.order, S.order2>>))

\* sub-circuits are expanded in place: the leaves of every block are contiguous in the listing
C02Contig(H, c, S) ==
  UNION {LET L == LeafSet(H, b) \cap DOMAIN S.leaves IN
         IF L = {} THEN {}
         ELSE LET ps == {Pos(S, i) : i \in L} IN
              When(MaxOf(ps) - MinOf(ps) + 1 = Cardinality(L), Fail("C02.contiguous", b, ps))
         : b \in Blocks(H, c) \ {c}}

\* never lists an operation before the operation its relation refers to
Before(H, S, a, b) == \A x \in LeafSet(H, a) \cap DOMAIN S.leaves, y \in LeafSet(H, b) \cap DOMAIN S.leaves : Pos(S, x) < Pos(S, y)
C02Causal(H, c, S) ==
  LET T == Subtree(H, c) IN
  UNION {LET L == H[i].link IN
         CASE L.k = "one" /\ L.ref \in T ->
                 When(Before(H, S, L.ref, i), Fail("C02.causal", i, <<"ref", L.ref>>))
           [] L.k = "multi" /\ L.refs # <<>> /\ \A m \in Range(L.refs) : InSnap(S, m) ->
                 \* "the operation its relation refers to" is a latest-ending member of the group
                 \* (taken on the memo-free times: which member ends last is a fact about the circuit, not about what an
                 \* earlier query left in the memo -- stale reports are C03's business)
                 (LET EndC(m) == IF m \in DOMAIN S.leaves THEN S.leaves[m].start_c + S.leaves[m].dur_v ELSE S.comps[m].start_c + S.comps[m].dur_c
                      mx == MaxOf({EndC(m) : m \in Range(L.refs)})
                      \* named deviation S13: the members listed too late are closing annotations (coordinate shift, barrier) of the
                      \* previous block; among the other members a latest-ending one is listed first
                      Ann(m) == m \in DOMAIN S.leaves /\ S.leaves[m].kind \in {"CoordinateShiftOperation", "Barrier"}
                      rest == {m \in Range(L.refs) : ~Ann(m)}
                      mr == IF rest = {} THEN 0 ELSE MaxOf({EndC(m) : m \in rest})
                      shiftOnly == rest # {} /\ \E m \in rest : EndC(m) = mr /\ Before(H, S, m, i)
                  IN When(\E m \in Range(L.refs) : EndC(m) = mx /\ Before(H, S, m, i),
                          Fail(IF shiftOnly THEN "C02.causal.multi.shift_moved" ELSE "C02.causal.multi", i, L.refs)))
           [] OTHER -> {}
         : i \in T \ {c}}

\* the same for the relation an operation itself REPORTS (whatever the history was): if it refers to something that is
\* part of this circuit, that something is listed first
C02CausalReported(H, c, S) ==
  UNION {LET L == S.leaves[i].rlink IN
         IF L.k = "one" /\ L.ref \in DOMAIN S.leaves
         THEN When(Pos(S, L.ref) < Pos(S, i), Fail("C02.causal.reported", i, <<"refers to", L.ref, "listed at", Pos(S, L.ref), "own position", Pos(S, i)>>))
         ELSE IF L.k = "one" /\ L.ref \in DOMAIN S.comps /\ L.ref \in DOMAIN H
              THEN When(Before(H, S, L.ref, i) \/ i \in LeafSet(H, L.ref), Fail("C02.causal.reported", i, <<"refers to block", L.ref>>))
              ELSE {}
         : i \in DOMAIN S.leaves}

\* --------------------------------------------------------------------- C01
\* local scheduling equations on the reported values, using the specification's links
C01Eq(H, c, S) ==
  LET T == {i \in Subtree(H, c) : InSnap(S, i)} IN
  UNION {LET L == H[i].link  r == Rec(S, i) IN
         CASE L.k = "none" ->
                 (IF i = c \/ ~InSnap(S, H[i].home) THEN When(i # c \/ r.start = 0, Fail("C01.eq.top", i, r.start))
                  ELSE When(r.start = Rec(S, H[i].home).start,
                            Fail("C01.frame", i, <<r.start, "block", H[i].home, Rec(S, H[i].home).start>>)))
           [] L.k = "one" /\ InSnap(S, L.ref) ->
                 (LET p == Rec(S, L.ref) IN
                  CASE L.rt = "FB" -> When(r.start = p.end, Fail("C01.eq.FB", i, <<r.start, "ref", L.ref, p.end>>))
                    [] L.rt = "JS" -> When(r.start = p.start, Fail("C01.eq.JS", i, <<r.start, "ref", L.ref, p.start>>))
                    [] L.rt = "JE" -> When(r.start = p.end - r.dur_v, Fail("C01.eq.JE", i, <<r.start, r.dur_v, "ref", L.ref, p.end>>))
                    [] OTHER -> {Fail("C01.eq.type", i, L.rt)})
           [] L.k = "multi" /\ L.refs # <<>> /\ \A m \in Range(L.refs) : InSnap(S, m) ->
                 (LET mx == MaxOf({Rec(S, m).end : m \in Range(L.refs)}) IN
                  When(r.start = mx, Fail("C01.eq.multi", i, <<r.start, "latest", mx>>)))
           [] OTHER -> {}
         : i \in T}
  \cup UNION {When(Rec(S, i).end = Rec(S, i).start + Rec(S, i).dur_v, Fail("C01.end", i, <<Rec(S, i).start, Rec(S, i).dur_v, Rec(S, i).end>>)) : i \in T}

\* durations follow the duration term under the current settings (configuration dimension of C01)
C01Dur(H, E, c, S) ==
  UNION {IF H[i].dur[1] \in {"fixed", "global", "reg", "decouple"}
         THEN When(S.leaves[i].dur_v = EvalDur(E, H[i].dur), Fail("C01.duration", i, <<S.leaves[i].dur_v, H[i].dur, EvalDur(E, H[i].dur)>>))
         ELSE {}
         : i \in LeafSet(H, c) \cap DOMAIN S.leaves}

\* --------------------------------------------------------------------- C04
SpanIn(S, ms) == IF ms = {} THEN 0 ELSE MaxOf({S.leaves[m].end : m \in ms}) - MinOf({S.leaves[m].start : m \in ms})
\* Named deviation (known finding): the code takes the span over the block's DIRECT entries, counting a nested block as
\* [its start, its end]; that differs from the span of the contained operations exactly when a nested block has contents
\* that start before the block itself (a JOINED_END operation longer than its reference inside it).
Dev_NodeSpan(H, S, b) ==
  LET ks == {k \in Range(H[b].kids) : InSnap(S, k)} IN
  IF ks = {} THEN 0 ELSE MaxOf({Rec(S, k).end : k \in ks}) - MinOf({Rec(S, k).start : k \in ks})
HasEarlyNested(H, S, b) ==
  \E k \in Blocks(H, b) \ {b} : k \in DOMAIN S.comps /\
     LET ms == Range(S.comps[k].members) \cap DOMAIN S.leaves IN
     ms # {} /\ MinOf({S.leaves[m].start : m \in ms}) < S.comps[k].start
C04Span(H, c, S) ==
  UNION {LET ms == Range(S.comps[b].members) \cap DOMAIN S.leaves IN
         When(S.comps[b].dur_v = SpanIn(S, ms),
              Fail(IF b \in DOMAIN H /\ S.comps[b].dur_v = Dev_NodeSpan(H, S, b) /\ HasEarlyNested(H, S, b)
                   THEN "C04.span.nested_early" ELSE "C04.span", b, <<"reported", S.comps[b].dur_v, "span", SpanIn(S, ms)>>))
         : b \in DOMAIN S.comps}
\* whenever no contained operation starts before the block's first operations, everything FOLLOWED_BY the
\* block starts only after all of the block's operations have ended
C04Followers(H, c, S) ==
  UNION {LET L == H[i].link IN
         IF L.k = "one" /\ L.rt = "FB" /\ L.ref \in DOMAIN S.comps /\ InSnap(S, i)
         THEN LET ms == Range(S.comps[L.ref].members) \cap DOMAIN S.leaves IN
              IF ms = {} \/ MinOf({S.leaves[m].start : m \in ms}) < S.comps[L.ref].start THEN {}
              ELSE When(Rec(S, i).start >= MaxOf({S.leaves[m].end : m \in ms}),
                        Fail("C04.followers", i, <<Rec(S, i).start, "block", L.ref, MaxOf({S.leaves[m].end : m \in ms})>>))
         ELSE {}
         : i \in Subtree(H, c) \ {c}}

\* --------------------------------------------------------------------- C03 (memo part)
C03Memo(S) ==
  UNION {When(S.leaves[i].start = S.leaves[i].start_c, Fail("C03.memo", i, <<"reported", S.leaves[i].start, "fresh", S.leaves[i].start_c>>)) : i \in DOMAIN S.leaves}
  \cup UNION {When(S.comps[b].start = S.comps[b].start_c /\ S.comps[b].dur_v = S.comps[b].dur_c,
                   Fail("C03.memo.block", b, <<S.comps[b].start, S.comps[b].start_c, S.comps[b].dur_v, S.comps[b].dur_c>>)) : b \in DOMAIN S.comps}

\* --------------------------------------------------------------------- C07
IsMeas(S, i) == S.leaves[i].acq_c # -2
C07Indices(c, S) ==
  LET ms == SelectSeq(S.order, LAMBDA i : IsMeas(S, i)) IN
  UNION {LET i == ms[j]
             sameq == {k \in 1..(j-1) : S.leaves[ms[k]].qs = S.leaves[i].qs} IN
         When(S.leaves[i].acq_c = j - 1, Fail("C07.circuit_level", i, <<S.leaves[i].acq_c, "expected", j - 1>>))
         \cup When(S.leaves[i].acq_q = Cardinality(sameq), Fail("C07.qubit_level", i, <<S.leaves[i].acq_q, "expected", Cardinality(sameq)>>))
         : j \in 1..Len(ms)}

\* filters: by qubit and by (qubit, tag) return precisely the indices of the matching measurements; tags partition
C07Filters(c, S) ==
  LET ms == SelectSeq(S.order, LAMBDA i : IsMeas(S, i))
      idx(sel(_)) == LET sq == SelectSeq(ms, sel) IN [j \in 1..Len(sq) |-> S.leaves[sq[j]].acq_q]
  IN UNION {LET r == S.by_q[j]
                want == idx(LAMBDA i : S.leaves[i].qs[1] = r[1]) IN
            When(r[2] = want, Fail("C07.filter.qubit", c, <<"qubit", r[1], "returned", r[2], "expected", want>>))
            : j \in 1..Len(S.by_q)}
     \cup UNION {LET r == S.by_tag[j]
                   want == idx(LAMBDA i : S.leaves[i].qs[1] = r[1] /\ S.leaves[i].tag = r[2]) IN
               When(r[3] = want, Fail("C07.filter.tag", c, <<"qubit", r[1], "tag", r[2], "returned", r[3], "expected", want>>))
               : j \in 1..Len(S.by_tag)}
     \cup UNION {LET r == S.by_q[j]
                   parts == {k \in 1..Len(S.by_tag) : S.by_tag[k][1] = r[1]}
                   all == UNION {Range(S.by_tag[k][3]) : k \in parts}
                   RECURSIVE Sum(_)
                   Sum(X) == IF X = {} THEN 0 ELSE LET x == CHOOSE y \in X : TRUE IN Len(S.by_tag[x][3]) + Sum(X \ {x}) IN
               When(all = Range(r[2]) /\ Sum(parts) = Len(r[2]), Fail("C07.partition", c, <<"qubit", r[1]>>))
               : j \in 1..Len(S.by_q)}
     \cup (IF S.stim_m.status # "ok" THEN {}
          ELSE When(S.stim_m.targets = [j \in 1..Len(ms) |-> S.leaves[ms[j]].qs[1]],
                    Fail("C07.record_order", c, <<"exported measurement targets", S.stim_m.targets>>)))
\* per qubit the indices increase with measurement start time (implicitly sequenced circuits free of channel overlaps)
OverlapFree(S) ==
  \A i, j \in DOMAIN S.leaves :
     (i # j /\ S.leaves[i].dur_v > 0 /\ S.leaves[j].dur_v > 0 /\ AnyMatch(Range(S.leaves[i].chans), Range(S.leaves[j].chans)))
       => (S.leaves[i].end <= S.leaves[j].start \/ S.leaves[j].end <= S.leaves[i].start)
C07Monotone(c, S) ==
  IF ~OverlapFree(S) THEN {}
  ELSE UNION {IF IsMeas(S, i) /\ IsMeas(S, j) /\ S.leaves[i].qs = S.leaves[j].qs /\ S.leaves[i].start < S.leaves[j].start
              THEN When(S.leaves[i].acq_q < S.leaves[j].acq_q, Fail("C07.monotone", j, <<"earlier", i>>)) ELSE {}
              : i \in DOMAIN S.leaves, j \in DOMAIN S.leaves}

\* --------------------------------------------------------------------- C06 (observable part)
C06Reset(c, S) == UNION {When(S.comps[b].nrep = 1, Fail("C06.reset", b, S.comps[b].nrep)) : b \in DOMAIN S.comps}

\* --------------------------------------------------------------------- C08
\* the exported Stim program (repeats expanded, fused targets split) is the listing translated instruction by instruction
C08Image(H, E, c, S) ==
  IF S.stim.status = "none" THEN {}
  ELSE IF S.stim.status # "ok" THEN {Fail("C08.export_error", c, S.stim.status)}
  ELSE LET want == Split(StimImage(H, E, S, c)) IN
       When(S.stim.flat = want, Fail("C08.image", c,
            <<"first difference at", LET n == IF Len(want) < Len(S.stim.flat) THEN Len(want) ELSE Len(S.stim.flat)
                                          d == {j \in 1..n : want[j] # S.stim.flat[j]} IN
                                      IF d = {} THEN n + 1 ELSE MinOf(d), "exported", Len(S.stim.flat), "expected", Len(want)>>))

\* --------------------------------------------------------------------- C15
C15Image(H, E, c, S) ==
  IF S.openql.status = "none" THEN {}
  ELSE IF S.openql.status # "ok" /\ S.openql.status # "duplicate-kernel" THEN {Fail("C15.export_error", c, S.openql.status)}
  ELSE IF S.openql.status = "duplicate-kernel" /\ S.openql.flat = <<>> THEN {Fail("C15.duplicate_kernel", c, "export refused: duplicate kernel name")}
  ELSE LET \* what the statement leaves open is normalised away on both sides: "a barrier on its pair" names a set of qubits, and
           \* "a phase update on both qubits" does not say which of the two comes first
           QLess(a, b) == a[2] < b[2]
           NormQ(s) ==
             LET F[k \in 0..Len(s)] ==
                   IF k = 0 THEN <<>>
                   ELSE LET x == IF s[k].name = "barrier" THEN [s[k] EXCEPT !.targets = SortSeq(@, QLess)] ELSE s[k]  P == F[k-1] IN
                        IF x.name = "update_ph" /\ Len(P) > 0 /\ P[Len(P)].name = "update_ph" /\ QLess(x.targets[1], P[Len(P)].targets[1])
                        THEN [P EXCEPT ![Len(P)] = x] \o <<P[Len(P)]>>
                        ELSE Append(P, x)
             IN F[Len(s)]
           want == NormQ(OpenQLImage(H, E, S, c))  got == NormQ(S.openql.flat)  dev == NormQ(DevSubFirst(H, E, S, c)) IN
       \* a refused export (duplicate kernel name, named deviation S8b) is still judged by the instruction stream the exporter
       \* hands over when nothing refuses it
       (IF S.openql.status = "duplicate-kernel" THEN {Fail("C15.duplicate_kernel", c, "export refused: duplicate kernel name")} ELSE {})
       \cup When(got = want,
            Fail(IF got = dev THEN "C15.image.subprograms_first" ELSE "C15.image", c,
                 <<"exported", Len(got), "expected", Len(want)>>))
       \cup When(S.openql.same_twice, Fail("C15.names", c, "two exports of the same circuit differ"))
       \* through the real OpenQL compiler (directed programs only): what it schedules for execution is, qubit by qubit, what
       \* it received; and what it received is the recorded listing (advisory: instruction spelling is OpenQL's)
       \cup (IF S.openql.real.status = "none" THEN {}
             ELSE IF S.openql.real.status # "ok" THEN {Fail("C15.real.compile", c, S.openql.real.status)}
             ELSE LET R == S.openql.real
                      Of(t, q) == LET m == {j \in 1..Len(t) : t[j][1] = q} IN IF m = {} THEN <<>> ELSE t[CHOOSE j \in m : TRUE][2]
                      Qs == {R.received[j][1] : j \in 1..Len(R.received)} \cup {R.executed[j][1] : j \in 1..Len(R.executed)}
                      Spell(o) == IF o.name = "prepz" THEN "prep_z" ELSE IF o.name = "wait" /\ o.args = <<0>> THEN "barrier" ELSE o.name
                      Listed(q) == LET sel == SelectSeq(got, LAMBDA o : \E j \in 1..Len(o.targets) : o.targets[j] = <<"q", q>>)
                                   IN [j \in 1..Len(sel) |-> Spell(sel[j])]
                  IN UNION {When(Of(R.executed, q) = Of(R.received, q),
                                 Fail("C15.real.executed", c, <<"qubit", q, "scheduled", Of(R.executed, q), "received", Of(R.received, q)>>))
                            \cup When(Of(R.received, q) = Listed(q),
                                      Fail("D15.real.received", c, <<"qubit", q, "OpenQL received", Of(R.received, q), "recorded listing", Listed(q)>>))
                            : q \in Qs})

\* ------------------------------------------------- the battery for one observation
ObsClauses(H, E, c, S, flags) ==
  C02Complete(H, c, S) \cup C02Stable(c, S) \cup C02Contig(H, c, S) \cup C02Causal(H, c, S) \cup C02CausalReported(H, c, S)
  \cup C01Eq(H, c, S) \cup C01Dur(H, E, c, S) \cup C04Span(H, c, S) \cup C04Followers(H, c, S) \cup C03Memo(S)
  \cup C08Image(H, E, c, S) \cup C15Image(H, E, c, S)
  \cup (IF flags.applied THEN C07Indices(c, S) \cup C07Filters(c, S) \cup C06Reset(c, S) ELSE {})
  \cup (IF flags.applied /\ flags.implicit THEN C07Monotone(c, S) ELSE {})

\* The same battery judged on the memo-free re-evaluation of the times.  A clause that fails on the reported
\* values but holds on the fresh ones is marked memo = TRUE: the equation is right, the reported value is stale
\* (that is history dependence, property C03, and is reported there).
ColdView(S) ==
  [S EXCEPT !.leaves = [i \in DOMAIN S.leaves |-> [S.leaves[i] EXCEPT !.start = S.leaves[i].start_c, !.end = S.leaves[i].start_c + S.leaves[i].dur_v]],
            !.comps  = [b \in DOMAIN S.comps |-> [S.comps[b] EXCEPT !.start = S.comps[b].start_c, !.dur_v = S.comps[b].dur_c,
                                                                      !.end = S.comps[b].start_c + S.comps[b].dur_c]]]
ObsClausesMarked(H, E, c, S, flags) ==
  LET W == ObsClauses(H, E, c, S, flags) IN
  IF C03Memo(S) = {} THEN W
  ELSE LET C == ObsClauses(H, E, c, ColdView(S), flags)
           same(f, g) == f.clause = g.clause /\ f.obj = g.obj
       IN {[f EXCEPT !.memo = ~(\E g \in C : same(f, g))] : f \in W}
          \cup {g \in C : ~(\E f \in W : same(f, g))}

\* ------------------------------------------- snapshot from the constructive semantics
\* (what a correct implementation reports; listing = pre-order, one of the allowed listings)
SpecSnapshot(H, E, c) ==
  LET order == LeavesOf(H, c)
      meas(i) == H[i].kind = "DispersiveMeasure"
      mseq == SelectSeq(order, meas) IN
  [top |-> c, order |-> order, order2 |-> order, by_q |-> <<>>, by_tag |-> <<>>, stim_m |-> [status |-> "none", targets |-> <<>>], stim |-> [status |-> "none", flat |-> <<>>], openql |-> [status |-> "none", flat |-> <<>>, names |-> <<>>, same_twice |-> TRUE, real |-> [status |-> "none", received |-> <<>>, executed |-> <<>>]],
   leaves |-> [i \in Range(order) |->
      [kind |-> H[i].kind, qs |-> H[i].qs, chans |-> H[i].chans, dur |-> H[i].dur, tag |-> H[i].tag, pos |-> IndexIn(order, i), home |-> H[i].home, rlink |-> H[i].link,
       start |-> StartOf(H, E, i), dur_v |-> DurOf(H, E, i), end |-> EndOf(H, E, i), start_c |-> StartOf(H, E, i),
       acq_c |-> IF meas(i) THEN IndexIn(mseq, i) - 1 ELSE -2,
       acq_q |-> IF meas(i) THEN Cardinality({k \in 1..(IndexIn(mseq, i) - 1) : H[mseq[k]].qs = H[i].qs}) ELSE -2]],
   comps |-> [b \in Blocks(H, c) |->
      [home |-> H[b].home, members |-> LeavesOf(H, b), nrep |-> EvalRep(E, H[b].rep),
       start |-> StartOf(H, E, b), dur_v |-> DurOf(H, E, b), end |-> EndOf(H, E, b),
       start_c |-> StartOf(H, E, b), dur_c |-> DurOf(H, E, b)]]]
=============================================================================
