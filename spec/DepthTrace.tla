---------------------------- MODULE DepthTrace ----------------------------
(* C02 at the documented graph depth limit: relation chains shorter than MaxGraphDepth (5000 in the library's documentation *)
(* and in intrf_graph_structure.py at the pinned commit) are listed completely, once, in causal order, stably.              *)
EXTENDS TLC, Json, IOUtils, Sequences, Naturals
MaxGraphDepth == 5000
Rows == JsonDeserialize(IOEnv.VERIF_IN)
VARIABLES i, fails
W(cond, name) == IF cond THEN {} ELSE {name}
RowFails(r) ==
  IF r.n >= MaxGraphDepth THEN {}                                             \* beyond the documented limit nothing is promised
  ELSE W(r.listed = r.added /\ r.all_added_listed /\ r.only_added_listed, "C02.complete.limit")
       \cup W(r.distinct = r.listed, "C02.once.limit")
       \cup W(r.chain_in_order, "C02.causal.limit")
       \cup W(r.stable, "C02.stable.limit")
       \cup W(r.attrs_kept, "C02.attrs.limit")
Init == i = 1 /\ fails = <<>>
Step == /\ i <= Len(Rows)
        /\ LET f == RowFails(Rows[i]) IN fails' = IF f = {} THEN fails ELSE Append(fails, [row |-> i, clauses |-> f])
        /\ i' = i + 1
Done == /\ i = Len(Rows) + 1
        /\ JsonSerialize(IOEnv.VERIF_OUT, [n |-> Len(Rows), fails |-> fails])
        /\ i' = i + 1 /\ UNCHANGED fails
Next == Step \/ Done
Spec == Init /\ [][Next]_<<i, fails>>
=============================================================================
