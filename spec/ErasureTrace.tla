---------------------------- MODULE ErasureTrace ----------------------------
(* C03, erasure form: a history h and the same history with every           *)
(* intermediate observation erased are executed on the real library in two  *)
(* separate processes; both end with the same observation battery of every  *)
(* circuit.  What the circuits report must be identical.                    *)
(* Input rows: [a |-> batteries of run A, b |-> batteries of run B] where a  *)
(* battery list is a sequence of [c, snap] in handle order.                  *)
EXTENDS Integers, Sequences, FiniteSets, TLC, Json, IOUtils

Rows == JsonDeserialize(IOEnv.VERIF_IN)
VARIABLES i, fails

LeafView(r) == [kind |-> r.kind, qs |-> r.qs, pos |-> r.pos, home |-> r.home, link |-> r.rlink.k]
TimeView(r) == [start |-> r.start, end |-> r.end, dur |-> r.dur_v]
IdxView(r)  == [acq_q |-> r.acq_q, acq_c |-> r.acq_c]
CompView(r) == [home |-> r.home, start |-> r.start, end |-> r.end, dur |-> r.dur_v, nrep |-> r.nrep, members |-> r.members]

PairFails(x, y) ==
  \* x, y: [c, snap]
  (IF x.c = y.c THEN {} ELSE {<<"C03.erasure.handles", x.c>>})
  \cup (IF x.snap.order = y.snap.order THEN {} ELSE {<<"C03.erasure.listing", x.c>>})
  \cup (IF DOMAIN x.snap.leaves = DOMAIN y.snap.leaves
        THEN {<<"C03.erasure.operation", o>> : o \in {o \in DOMAIN x.snap.leaves : LeafView(x.snap.leaves[o]) # LeafView(y.snap.leaves[o])}}
             \cup {<<"C03.erasure.time", o>> : o \in {o \in DOMAIN x.snap.leaves : TimeView(x.snap.leaves[o]) # TimeView(y.snap.leaves[o])}}
             \cup {<<"C03.erasure.index", o>> : o \in {o \in DOMAIN x.snap.leaves : IdxView(x.snap.leaves[o]) # IdxView(y.snap.leaves[o])}}
        ELSE {<<"C03.erasure.operations", x.c>>})
  \cup (IF DOMAIN x.snap.comps = DOMAIN y.snap.comps
        THEN {<<"C03.erasure.block", b>> : b \in {b \in DOMAIN x.snap.comps : CompView(x.snap.comps[b]) # CompView(y.snap.comps[b])}}
        ELSE {<<"C03.erasure.blocks", x.c>>})
  \cup (IF x.snap.by_q = y.snap.by_q /\ x.snap.by_tag = y.snap.by_tag THEN {} ELSE {<<"C03.erasure.indices", x.c>>})
  \cup (IF x.snap.stim_m = y.snap.stim_m THEN {} ELSE {<<"C03.erasure.export", x.c>>})

RowFails(r) ==
  IF Len(r.a) # Len(r.b) THEN {<<"C03.erasure.count", "">>}
  ELSE UNION {PairFails(r.a[k], r.b[k]) : k \in 1..Len(r.a)}

Init == i = 1 /\ fails = <<>>
Step == /\ i <= Len(Rows)
        /\ LET f == RowFails(Rows[i]) IN
             fails' = IF f = {} THEN fails ELSE Append(fails, [row |-> i, clauses |-> f])
        /\ i' = i + 1
Done == /\ i = Len(Rows) + 1
        /\ JsonSerialize(IOEnv.VERIF_OUT, [n |-> Len(Rows), fails |-> fails])
        /\ i' = i + 1 /\ UNCHANGED fails
Next == Step \/ Done
Spec == Init /\ [][Next]_<<i, fails>>
=============================================================================
