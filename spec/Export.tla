------------------------------- MODULE Export -------------------------------
(***************************************************************************)
(* Export images (properties C08, C15): the exported program is the        *)
(* operation listing translated instruction by instruction; sub-circuits   *)
(* are expanded in place and repeated their repetition count; unsupported  *)
(* operations are omitted; nothing else is added.                          *)
(* An instruction is [name, targets, args]; a record target rec[-k] is     *)
(* <<"rec", -k>>.                                                          *)
(***************************************************************************)
EXTENDS Circuit

NoneInt == -999999
Ins(name, targets, args) == [name |-> name, targets |-> targets, args |-> args]
Rc(k) == <<"rec", k>>
Qt(q) == <<"q", q>>

StimGate == [Reset |-> "R", Hadamard |-> "H", Identity |-> "I", CPhase |-> "CZ", DispersiveMeasure |-> "M", Rx180 |-> "X",
             Rx90 |-> "SQRT_X", Rxm90 |-> "SQRT_X_DAG", Ry180 |-> "Y", Ry90 |-> "SQRT_Y", Rym90 |-> "SQRT_Y_DAG"]

\* qubits of an operation in channel order, first occurrences (what a gate acts on)
ChanQubits(r) == UniqueInOrder([j \in 1..Len(r.chans) |-> r.chans[j][1]])
Extra(r, key) == LET hits == {j \in 1..Len(r.extra) : r.extra[j][1] = key} IN
                 IF hits = {} THEN NoneInt ELSE r.extra[CHOOSE j \in hits : TRUE][2]

\* record look-backs of a detector: five target shapes
DetTargets(m, s, L, r, so) ==
  CASE m # NoneInt /\ s = NoneInt /\ r = NoneInt               -> << Rc(m - (L + 1)) >>
    [] m # NoneInt /\ s = NoneInt /\ r # NoneInt               -> << Rc(m - (L + 1)), Rc(m - (L + 1) - r) >>
    [] m # NoneInt /\ s # NoneInt /\ r = NoneInt               -> << Rc(m - (L + 1)), Rc(s - (L + 1)) >>
    [] m # NoneInt /\ s # NoneInt /\ r # NoneInt /\ so = NoneInt -> << Rc(m - (L + 1)), Rc(s - (L + 1)), Rc(-r) >>
    [] m # NoneInt /\ s # NoneInt /\ r # NoneInt /\ so # NoneInt -> << Rc(m - (L + 1)), Rc(s - (L + 1)), Rc(-r), Rc(-r - so) >>
    [] OTHER -> << >>

\* the Stim instruction(s) of one leaf operation: <<>> if the exporter does not support the kind (exact class)
StimOf(r) ==
  CASE r.kind \in DOMAIN StimGate      -> << Ins(StimGate[r.kind], [j \in 1..Len(ChanQubits(r)) |-> Qt(ChanQubits(r)[j])], <<>>) >>
    [] r.kind = "Barrier"              -> << Ins("TICK", <<>>, <<>>) >>
    [] r.kind = "CoordinateShiftOperation" -> << Ins("SHIFT_COORDS", <<>>, <<Extra(r, "space_shift"), Extra(r, "time_shift")>>) >>
    [] r.kind = "DetectorOperation"    ->
         (LET m == Extra(r, "main_target")  L == Extra(r, "last_acquisition_index") IN
          IF m # NoneInt /\ L = NoneInt THEN << Ins("DETECTOR", << <<"invalid", 0>> >>, <<>>) >>          \* not generated: needs a record position
          ELSE << Ins("DETECTOR", DetTargets(m, Extra(r, "secondary_target"), L, Extra(r, "reference_offset"), Extra(r, "secondary_offset")),
                      IF DetTargets(m, Extra(r, "secondary_target"), L, Extra(r, "reference_offset"), Extra(r, "secondary_offset")) = <<>> THEN <<>> ELSE <<r.qs[1], 0>>) >>)
    [] r.kind = "LogicalObservableOperation" ->
         << Ins("OBSERVABLE_INCLUDE", << Rc(Extra(r, "main_target") - (Extra(r, "last_acquisition_index") + 1)) >>, <<0>>) >>
    [] OTHER -> << >>

\* OpenQL: gate name + operands; a CPhase is cz, a barrier on the pair and a phase update on both qubits
OpenQLGate == [Reset |-> "prepz", Hadamard |-> "h", Identity |-> "i", DispersiveMeasure |-> "measure", Rx180 |-> "x180", Rx90 |-> "x90",
               Rxm90 |-> "mx90", Ry180 |-> "y180", Ry90 |-> "y90", Rym90 |-> "my90"]
QTargets(r) == [j \in 1..Len(ChanQubits(r)) |-> Qt(ChanQubits(r)[j])]
OpenQLOf(r, durv) ==
  CASE r.kind \in DOMAIN OpenQLGate -> << Ins(OpenQLGate[r.kind], QTargets(r), <<>>) >>
    [] r.kind = "CPhase"  -> << Ins("cz", QTargets(r), <<>>), Ins("barrier", QTargets(r), <<>>),
                                Ins("update_ph", <<QTargets(r)[1]>>, <<>>), Ins("update_ph", <<QTargets(r)[2]>>, <<>>) >>
    [] r.kind = "Barrier" -> << Ins("barrier", QTargets(r), <<>>) >>
    [] r.kind = "Wait"    -> << Ins("wait", QTargets(r), <<durv \div 4>>) >>      \* integer time units (durations are quarter units here)
    [] OTHER -> << >>

\* ------------------------------------------------ image of a circuit
\* Leaf(i, ...) is supplied by the caller (Stim: StimOf(H[i]); OpenQL: OpenQLOf(H[i], duration)); kids are walked in listing order.
SortByPos(H, S, kids) ==
  \* direct entries of a block in the order of the listing (position of their first leaf; blocks without leaves keep insertion order, last)
  LET key(k) == LET Ls == Range(LeavesOf(H, k)) \cap DOMAIN S.leaves IN
                IF Ls = {} THEN 1000000 + IndexIn(kids, k) ELSE MinOf({S.leaves[x].pos : x \in Ls})
  IN SortSeq(kids, LAMBDA a, b : key(a) < key(b))
Repeat(s, n) == LET F[k \in 0..n] == IF k = 0 THEN <<>> ELSE F[k-1] \o s IN F[IF n < 0 THEN 0 ELSE n]
LeafImage(H, S, i, mode) == CASE mode = "stim" -> StimOf(H[i])
                              [] mode = "kinds" -> << Ins(H[i].kind, [j \in 1..Len(H[i].qs) |-> Qt(H[i].qs[j])], <<>>) >>     \* the listing itself, blocks repeated
                              [] OTHER -> OpenQLOf(H[i], S.leaves[i].dur_v)
\* Named deviation (known finding S8): the OpenQL exporter adds nested sub-programs while it walks and its own kernel last, so
\* within every block all nested blocks come first, then the block's own gates.
RECURSIVE DevSubFirst(_, _, _, _)
DevSubFirst(H, E, S, i) ==
  IF H[i].t = "op" THEN LeafImage(H, S, i, "openql")
  ELSE LET ks == SortByPos(H, S, H[i].kids)
           subs == SelectSeq(ks, LAMBDA k : H[k].t = "comp")
           own  == SelectSeq(ks, LAMBDA k : H[k].t = "op")
           A[k \in 0..Len(subs)] == IF k = 0 THEN <<>> ELSE A[k-1] \o Repeat(DevSubFirst(H, E, S, subs[k]), EvalRep(E, H[subs[k]].rep))
           B[k \in 0..Len(own)] == IF k = 0 THEN <<>> ELSE B[k-1] \o LeafImage(H, S, own[k], "openql")
       IN A[Len(subs)] \o B[Len(own)]
RECURSIVE ImageOf(_, _, _, _, _)
ImageOf(H, E, S, i, mode) ==
  IF H[i].t = "op" THEN LeafImage(H, S, i, mode)
  ELSE LET ks == SortByPos(H, S, H[i].kids)
           F[k \in 0..Len(ks)] == IF k = 0 THEN <<>> ELSE F[k-1] \o
                 (IF H[ks[k]].t = "comp" THEN Repeat(ImageOf(H, E, S, ks[k], mode), EvalRep(E, H[ks[k]].rep))
                  ELSE ImageOf(H, E, S, ks[k], mode))
       IN F[Len(ks)]
\* the top circuit's own repetition count is NOT applied by the exporters (only nested blocks are repeated)
StimImage(H, E, S, c) == ImageOf(H, E, S, c, "stim")
OpenQLImage(H, E, S, c) == ImageOf(H, E, S, c, "openql")
\* the listing an unrolled circuit must have: every block's listing repeated its count (C06, library circuits); the top-level
\* circuit's own count applies too
ExpandedListing(H, E, S, c) == Repeat(ImageOf(H, E, S, c, "kinds"), EvalRep(E, H[c].rep))

\* splitting fused targets: a k-target one-qubit instruction = k instructions (the reader does the same on the real output)
Arity(name) == IF name \in {"CZ", "cz"} THEN 2 ELSE IF name \in {"TICK", "DETECTOR", "OBSERVABLE_INCLUDE", "SHIFT_COORDS", "barrier", "wait"} THEN 0 ELSE 1
SplitOne(x) == IF Arity(x.name) = 0 \/ Len(x.targets) <= Arity(x.name) THEN <<x>>
               ELSE [j \in 1..(Len(x.targets) \div Arity(x.name)) |->
                       Ins(x.name, SubSeq(x.targets, (j - 1) * Arity(x.name) + 1, j * Arity(x.name)), x.args)]
Split(s) == LET F[k \in 0..Len(s)] == IF k = 0 THEN <<>> ELSE F[k-1] \o SplitOne(s[k]) IN F[Len(s)]
Multiset(s) == [x \in Range(s) |-> Cardinality({j \in 1..Len(s) : s[j] = x})]
CountM(s) == Cardinality({j \in 1..Len(s) : s[j].name = "M"})
=============================================================================
