------------------------------- MODULE Ident -------------------------------
(* Channel / edge / qubit identifier relations and order-preserving           *)
(* de-duplication (property C19).  These are THE definitions the other        *)
(* modules (Circuit, Surface17, FluxDance) import: implicit sequencing,       *)
(* parity-group membership and parking lookups all reduce to them.            *)
EXTENDS Naturals, Sequences, FiniteSets

ChannelKinds == {"READOUT", "MICROWAVE", "FLUX", "ALL"}

\* A channel identifier is <<qubit, channel kind>>.
Match(a, b) == a[1] = b[1] /\ (a[2] = b[2] \/ a[2] = "ALL" \/ b[2] = "ALL")

\* Does any identifier of sequence/set A match any of B (used by the implicit rule).
AnyMatch(A, B) == \E a \in A, b \in B : Match(a, b)

\* An edge identifier is <<x, y>> with x # y; its identity is the unordered pair.
EdgeKey(e)    == {e[1], e[2]}
EdgeEq(e, f)  == EdgeKey(e) = EdgeKey(f)
EdgeHas(e, x) == x \in EdgeKey(e)
EdgeOther(e, x) == IF x = e[1] THEN e[2] ELSE e[1]

QubitEq(x, y) == x = y

RECURSIVE UniqueInOrder(_)
UniqueInOrder(s) ==
  IF s = <<>> THEN <<>>
  ELSE LET r == UniqueInOrder(SubSeq(s, 1, Len(s) - 1))
           x == s[Len(s)]
       IN IF \E j \in 1..Len(r) : r[j] = x THEN r ELSE Append(r, x)

\* de-duplication under an arbitrary equality: the FIRST occurrence (the very element, not an equal one) is kept
UniqueInOrderBy(s, Eq(_, _)) ==
  LET keep == {j \in 1..Len(s) : \A k \in 1..(j-1) : ~Eq(s[k], s[j])}
      F[n \in 0..Len(s)] == IF n = 0 THEN <<>> ELSE IF n \in keep THEN Append(F[n-1], s[n]) ELSE F[n-1]
  IN F[Len(s)]

SeqRange(s) == {s[j] : j \in 1..Len(s)}

\* s is a subsequence of t witnessed by first occurrences
FirstIndex(t, x) == CHOOSE j \in 1..Len(t) : t[j] = x /\ \A k \in 1..(j-1) : t[k] # x

-----------------------------------------------------------------------------
(* Design-level statements (checked by TLC over a finite universe in MCIdent) *)
MatchSymmetric(U)  == \A a, b \in U : Match(a, b) = Match(b, a)
MatchReflexive(U)  == \A a \in U : Match(a, a)
MatchLocal(U)      == \A a, b \in U : Match(a, b) => a[1] = b[1]
MatchExact(U)      == \A a, b \in U : Match(a, b) <=>
                         (a[1] = b[1] /\ (a[2] = b[2] \/ "ALL" \in {a[2], b[2]}))
\* Matching is an overlap relation, NOT an equivalence: ALL bridges two different channels.
MatchNotTransitiveWitness(U) ==
   \E a, b, c \in U : Match(a, b) /\ Match(b, c) /\ ~Match(a, c)

UniqueProps(s) ==
  LET u == UniqueInOrder(s) IN
  /\ SeqRange(u) = SeqRange(s)                                   \* nothing lost, nothing invented
  /\ \A j, k \in 1..Len(u) : j # k => u[j] # u[k]                \* no duplicates
  /\ \A j, k \in 1..Len(u) : j < k => FirstIndex(s, u[j]) < FirstIndex(s, u[k])  \* first occurrences, in order
  /\ UniqueInOrder(u) = u                                         \* idempotent
=============================================================================
