----------------------------- MODULE IdentTrace -----------------------------
(* Binding for C19: a table recorded from the real code (==, in, hash on      *)
(* ChannelIdentifier / EdgeIDObj / QubitIDObj, unique_in_order) is validated  *)
(* row by row against Ident.tla.  One TLC state per row; verdict is total.    *)
EXTENDS Ident, TLC, Json, IOUtils

Rows == JsonDeserialize(IOEnv.VERIF_IN)
VARIABLES i, fails

\* universes the table must cover completely (so a row cannot silently be dropped)
CONSTANTS NQ, NE, MaxLen

RowFails(r) ==
  CASE r.t = "chan" ->
         (LET a == r.a  b == r.b  m == Match(a, b) IN
           (IF r.eq = m THEN {} ELSE {"C19.match"})
           \cup (IF r.eq_rev = m THEN {} ELSE {"C19.match.symmetric"})
           \cup (IF r.ne = ~m THEN {} ELSE {"C19.match.ne"})
           \cup (IF r.in_list = m THEN {} ELSE {"C19.match.in"}))
    [] r.t = "edge" ->
         (LET m == EdgeEq(r.e, r.f) IN
           (IF r.eq = m THEN {} ELSE {"C19.edge.eq"})
           \cup (IF m => r.hash_eq THEN {} ELSE {"C19.edge.hash"})
           \cup (IF r.in_set = m THEN {} ELSE {"C19.edge.in_set"})
           \cup (IF r.has = [j \in 1..Len(r.probe) |-> EdgeHas(r.e, r.probe[j])] THEN {} ELSE {"C19.edge.contains"}))
    [] r.t = "qubit" ->
         (LET m == QubitEq(r.x, r.y) IN
           (IF r.eq = m THEN {} ELSE {"C19.qubit.eq"})
           \cup (IF m => r.hash_eq THEN {} ELSE {"C19.qubit.hash"})
           \cup (IF r.in_set = m THEN {} ELSE {"C19.qubit.in_set"}))
    [] r.t = "selfedge" ->
         (LET m == r.x = r.y IN
           (IF r.eq = m THEN {} ELSE {"C19.edge.eq.degenerate"})
           \cup (IF m => r.hash_eq THEN {} ELSE {"C19.edge.hash"})
           \cup (IF r.in_set = m THEN {} ELSE {"C19.edge.in_set.degenerate"}))
    [] r.t = "seq" ->
         (IF r.out = UniqueInOrder(r.s) THEN {} ELSE {"C19.unique"})
    [] r.t = "chanseq" ->
         \* de-duplication of channel identifiers uses hash+eq of the identifiers: first occurrences kept
         (IF r.out = UniqueInOrder(r.s) THEN {} ELSE {"C19.unique.chan"})
    [] r.t = "edgeseq" ->
         \* equal edges in different orientation are distinguishable: the first occurrence itself is kept
         (IF r.out = UniqueInOrderBy(r.s, EdgeEq) THEN {} ELSE {"C19.unique.first_kept"})
    [] OTHER -> {"C19.unknown_row"}

Covered ==
  LET chanU == ((0..(NQ-1)) \cup {300}) \X ChannelKinds
      edgeU == {e \in (0..(NE-1)) \X (0..(NE-1)) : e[1] # e[2]}
      R == {Rows[j] : j \in 1..Len(Rows)} IN
  /\ {<<r.a, r.b>> : r \in {x \in R : x.t = "chan"}} = chanU \X chanU
  /\ {<<r.e, r.f>> : r \in {x \in R : x.t = "edge"}} = edgeU \X edgeU

Init == i = 1 /\ fails = <<>>
Step == /\ i <= Len(Rows)
        /\ LET f == RowFails(Rows[i]) IN
             fails' = IF f = {} THEN fails ELSE Append(fails, [row |-> i, clauses |-> f])
        /\ i' = i + 1
Done == /\ i = Len(Rows) + 1
        /\ LET cov == Covered IN
           JsonSerialize(IOEnv.VERIF_OUT, [n |-> Len(Rows), covered |-> cov, fails |-> fails])
        /\ i' = i + 1 /\ UNCHANGED fails
Next == Step \/ Done
Spec == Init /\ [][Next]_<<i, fails>>
=============================================================================
