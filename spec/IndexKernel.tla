---------------------------- MODULE IndexKernel ----------------------------
(***************************************************************************)
(* Acquisition index kernels of a multi-round repetition-code experiment   *)
(* (properties C12, C13).  An experiment is a list of distinct QEC-round   *)
(* counts, heralded initialisation on/off (H = 1/0), qutrit calibration    *)
(* points and a number of experiment repetitions.  Each round count r gets *)
(* a block of H + max(0, r-1) + 1 consecutive indices, the calibration     *)
(* kernel 3H + 3; one cycle is their concatenation; repetition i is the    *)
(* cycle shifted by i * cycle length.                                      *)
(***************************************************************************)
EXTENDS Integers, Sequences, FiniteSets

Sum(f, n) == LET S[k \in 0..n] == IF k = 0 THEN 0 ELSE S[k-1] + f[k] IN S[n]     \* f[1] + ... + f[n]

BlockLen(r, H) == H + (IF r > 1 THEN r - 1 ELSE 0) + 1
CalLen(H)      == 3 * H + 3
Lens(rounds, H)   == [j \in 1..Len(rounds) |-> BlockLen(rounds[j], H)]
Start(rounds, H, i) == Sum(Lens(rounds, H), i - 1)                              \* inclusive first index of block i
Stop(rounds, H, i)  == Start(rounds, H, i) + BlockLen(rounds[i], H) - 1         \* inclusive last index
CalStart(rounds, H) == Sum(Lens(rounds, H), Len(rounds))
CalStop(rounds, H)  == CalStart(rounds, H) + CalLen(H) - 1
Cycle(rounds, H)    == CalStart(rounds, H) + CalLen(H)
\* calibration points off (K = 0): no calibration kernel, the cycle is the blocks only, no calibration index exists
CalLenK(H, K)         == K * CalLen(H)
CycleK(rounds, H, K)  == CalStart(rounds, H) + CalLenK(H, K)

\* index categories of block i (sequences, ascending); `anc` = the qubit is an ancilla
Heralded(rounds, H, i) == IF H = 1 THEN <<Start(rounds, H, i)>> ELSE <<>>
Stab(rounds, H, i, anc) ==
  IF anc /\ rounds[i] > 1 THEN [j \in 1..(rounds[i] - 1) |-> Start(rounds, H, i) + H + j - 1] ELSE <<>>
Final(rounds, H, i, anc) ==
  IF anc /\ rounds[i] = 0 THEN <<>>                                             \* the documented missing slot of a 0-round block
  ELSE <<Stop(rounds, H, i)>>
CalHeralded(rounds, H, s) == IF H = 1 THEN <<CalStart(rounds, H) + s * (H + 1)>> ELSE <<>>     \* s = 0, 1, 2
CalProjected(rounds, H, s) == <<CalStart(rounds, H) + s * (H + 1) + H>>

CalHeraldedK(rounds, H, K, s)  == IF K = 1 THEN CalHeralded(rounds, H, s) ELSE <<>>
CalProjectedK(rounds, H, K, s) == IF K = 1 THEN CalProjected(rounds, H, s) ELSE <<>>

SeqSet(s) == {s[j] : j \in 1..Len(s)}
Shift(s, d) == [j \in 1..Len(s) |-> s[j] + d]
\* repetition i (0-based) of a single-cycle index list
Sliced(s, rounds, H, reps) == [i \in 1..reps |-> Shift(s, (i - 1) * Cycle(rounds, H))]
Estimate(rounds, H, size)  == size \div Cycle(rounds, H)
SlicedK(s, rounds, H, K, reps) == [i \in 1..reps |-> Shift(s, (i - 1) * CycleK(rounds, H, K))]
EstimateK(rounds, H, K, size)  == size \div CycleK(rounds, H, K)

-----------------------------------------------------------------------------
(* Design-level invariants of one experiment description.                    *)
Block(rounds, H, i) == Start(rounds, H, i)..Stop(rounds, H, i)
Tiling(rounds, H) ==
  /\ Len(rounds) > 0 => Start(rounds, H, 1) = 0
  /\ \A i \in 1..(Len(rounds) - 1) : Start(rounds, H, i + 1) = Stop(rounds, H, i) + 1          \* contiguous
  /\ \A i, j \in 1..Len(rounds) : i # j => Block(rounds, H, i) \cap Block(rounds, H, j) = {}     \* non-overlapping
  /\ CalStart(rounds, H) = (IF Len(rounds) = 0 THEN 0 ELSE Stop(rounds, H, Len(rounds)) + 1)
  /\ Cycle(rounds, H) = CalStop(rounds, H) + 1
CategoriesOK(rounds, H) ==
  \A i \in 1..Len(rounds), anc \in BOOLEAN :
    LET h == SeqSet(Heralded(rounds, H, i))  s == SeqSet(Stab(rounds, H, i, anc))  f == SeqSet(Final(rounds, H, i, anc)) IN
    /\ h \cup s \cup f \subseteq Block(rounds, H, i)                                             \* inside the kernel
    /\ h \cap s = {} /\ h \cap f = {} /\ s \cap f = {}                                           \* pairwise disjoint
    /\ (anc => (h \cup s \cup f) = (IF rounds[i] = 0 THEN Block(rounds, H, i) \ {Stop(rounds, H, i)} ELSE Block(rounds, H, i)))  \* ancilla covers
    /\ (~anc => (h \cup f) \subseteq Block(rounds, H, i))
CalOK(rounds, H) ==
  LET all == UNION {SeqSet(CalHeralded(rounds, H, s)) \cup SeqSet(CalProjected(rounds, H, s)) : s \in 0..2} IN
  /\ all = CalStart(rounds, H)..CalStop(rounds, H)
  /\ \A s, t \in 0..2 : s # t => SeqSet(CalProjected(rounds, H, s)) \cap SeqSet(CalProjected(rounds, H, t)) = {}
TranslateOK(rounds, H, reps) ==
  \A i \in 1..Len(rounds) :
     LET sl == Sliced(Final(rounds, H, i, FALSE), rounds, H, reps) IN
     \A k \in 1..reps : sl[k] = Shift(sl[1], (k - 1) * Cycle(rounds, H))
EstimateOK(rounds, H, reps) == Estimate(rounds, H, reps * Cycle(rounds, H)) = reps
\* the same with the calibration flag: every category of every repetition lies inside the dataset 0..reps*cycle-1, distinct
\* repetitions never share an index, the estimate inverts
DatasetOK(rounds, H, K, reps) ==
  LET C == CycleK(rounds, H, K)
      one == UNION {SeqSet(Heralded(rounds, H, i)) \cup SeqSet(Stab(rounds, H, i, TRUE)) \cup SeqSet(Final(rounds, H, i, FALSE)) : i \in 1..Len(rounds)}
             \cup UNION {SeqSet(CalHeraldedK(rounds, H, K, s)) \cup SeqSet(CalProjectedK(rounds, H, K, s)) : s \in 0..2} IN
  /\ one = 0..(C - 1)                                                    \* one cycle is covered exactly
  /\ \A a, b \in 1..reps : a # b => {x + (a - 1) * C : x \in one} \cap {x + (b - 1) * C : x \in one} = {}
  /\ UNION {{x + (a - 1) * C : x \in one} : a \in 1..reps} = 0..(reps * C - 1)
  /\ C > 0 => EstimateK(rounds, H, K, reps * C) = reps
=============================================================================
