-------------------------- MODULE IndexKernelTrace --------------------------
(* Binding for C12: one implementation test per experiment description.     *)
(* Every getter of the real kernels is compared with the arrays of           *)
(* IndexKernel.tla; the table must cover the enumerated universe.            *)
EXTENDS IndexKernel, TLC, Json, IOUtils

Rows == JsonDeserialize(IOEnv.VERIF_IN)
CONSTANTS MaxRound, MaxLen, MaxReps
VARIABLES i, fails

W(cond, name) == IF cond THEN {} ELSE {name}
Flat(ss) == LET F[k \in 0..Len(ss)] == IF k = 0 THEN <<>> ELSE F[k-1] \o ss[k] IN F[Len(ss)]

RowFails(r) ==
  LET R == r.rounds  H == r.H  n == r.reps  K == r.K IN
  UNION {LET b == r.blocks[k] IN
           W(b.start = Start(R, H, k) /\ b.stop = Stop(R, H, k), "C12.contiguous")
           \cup W(b.length = BlockLen(R[k], H), "C12.length")
           \cup W(b.her_d = Heralded(R, H, k) /\ b.her_a = Heralded(R, H, k), "C12.heralded")
           \cup W(b.stab_a = Stab(R, H, k, TRUE) /\ b.stab_d = <<>>, "C12.stabilizer")
           \cup W(b.fin_a = Final(R, H, k, TRUE) /\ b.fin_d = Final(R, H, k, FALSE), "C12.final")
           \cup W(SeqSet(b.all_a) = SeqSet(Heralded(R, H, k)) \cup SeqSet(Stab(R, H, k, TRUE)) \cup SeqSet(Final(R, H, k, TRUE))
                  /\ SeqSet(b.all_d) = SeqSet(Heralded(R, H, k)) \cup SeqSet(Final(R, H, k, FALSE)) /\ b.all_x = <<>>, "C12.contains")
           \cup W(SeqSet(b.all_a) \subseteq b.start..b.stop /\ Len(b.all_a) = Cardinality(SeqSet(b.all_a)), "C12.inside")
         : k \in 1..Len(r.blocks)}
  \cup W(Len(r.blocks) = Len(R) /\ r.ncal = K /\ r.nother = 0 /\ (K = 1 => r.cal_last), "C12.kernels")
  \cup (IF r.cal_last
        THEN W(r.cal.start = CalStart(R, H) /\ r.cal.stop = CalStop(R, H) /\ r.cal.length = CalLen(H), "C12.calibration.range")
             \cup W(\A s \in 0..2 : r.cal.her[s+1] = CalHeralded(R, H, s) /\ r.cal.proj[s+1] = CalProjected(R, H, s), "C12.calibration.index")
             \cup W(SeqSet(r.cal.all) = CalStart(R, H)..CalStop(R, H) /\ r.cal.all_x = <<>>, "C12.calibration.cover")
        ELSE {})
  \cup W(r.cycle = CycleK(R, H, K) /\ r.exp_start = 0 /\ r.exp_stop = n * CycleK(R, H, K), "C12.cycle")
  \cup W(\A s \in 0..2 : r.sl_cal_proj[s+1] = Flat(SlicedK(CalProjectedK(R, H, K, s), R, H, K, n))
                         /\ r.sl_cal_her[s+1] = Flat(SlicedK(CalHeraldedK(R, H, K, s), R, H, K, n)), "C12.translate.calibration")
  \cup W(\A k \in 1..Len(R) :
            /\ r.sl_her[k] = (IF H = 1 THEN SlicedK(Heralded(R, H, k), R, H, K, n) ELSE [j \in 1..n |-> <<>>])
            /\ r.sl_stab_a[k] = SlicedK(Stab(R, H, k, TRUE) \o Final(R, H, k, TRUE), R, H, K, n)
            /\ r.sl_stab_d[k] = SlicedK(Final(R, H, k, FALSE), R, H, K, n)
            /\ r.sl_proj_a[k] = SlicedK(Final(R, H, k, TRUE), R, H, K, n)
            /\ r.sl_proj_d[k] = SlicedK(Final(R, H, k, FALSE), R, H, K, n), "C12.translate")
  \cup W(r.estimate = n /\ (CycleK(R, H, K) > 1 => r.estimate_off_rejected), "C12.estimate")     \* size + 1 is a multiple of a cycle of 1

RECURSIVE Lists(_, _)
Lists(S, m) == IF m = 0 THEN {<<>>} ELSE {<<>>} \cup UNION {{<<x>> \o t : t \in Lists(S \ {x}, m - 1)} : x \in S}
Covered ==
  LET want == (Lists(0..MaxRound, MaxLen) \ {<<>>}) \X {0, 1} \X {0, 1} \X (1..MaxReps)
      got == {<<Rows[j].rounds, Rows[j].H, Rows[j].K, Rows[j].reps>> : j \in 1..Len(Rows)} IN
  want \subseteq got

Init == i = 1 /\ fails = <<>>
Step == /\ i <= Len(Rows)
        /\ LET f == RowFails(Rows[i]) IN fails' = IF f = {} THEN fails ELSE Append(fails, [row |-> i, clauses |-> f])
        /\ i' = i + 1
Done == /\ i = Len(Rows) + 1
        /\ JsonSerialize(IOEnv.VERIF_OUT, [n |-> Len(Rows), covered |-> Covered, fails |-> fails])
        /\ i' = i + 1 /\ UNCHANGED fails
Next == Step \/ Done
Spec == Init /\ [][Next]_<<i, fails>>
=============================================================================
