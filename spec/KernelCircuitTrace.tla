------------------------- MODULE KernelCircuitTrace -------------------------
(* Binding for C13: per qubit, the acquisition indices the constructed        *)
(* multi-round circuit assigns to its heralded / parity / final measurements  *)
(* and the indices the experiment kernel returns are both compared with       *)
(* IndexKernel.tla (and hence with each other).  The documented difference:   *)
(* in a 0-round block the circuit measures the ancilla once (tag "final"),    *)
(* the kernel reports no projected index for it.                              *)
EXTENDS IndexKernel, TLC, Json, IOUtils

Rows == JsonDeserialize(IOEnv.VERIF_IN)
VARIABLES i, fails
W(cond, name) == IF cond THEN {} ELSE {name}
Prep == << <<>>, <<"Rx180">>, <<"Rx180", "Rx180ef">> >>            \* gates that prepare calibration state 0, 1, 2
US(f, n) == UNION {f[k] : k \in 1..n}

QubitFails(r, q) ==
  LET R == r.rounds  H == 1  n == Len(R)
      her   == UNION {SeqSet(Heralded(R, H, k)) : k \in 1..n}
      calH  == UNION {SeqSet(CalHeralded(R, H, s)) : s \in 0..2}
      calP  == UNION {SeqSet(CalProjected(R, H, s)) : s \in 0..2}
      stab  == UNION {SeqSet(Stab(R, H, k, q.anc)) : k \in 1..n}
      finK  == UNION {SeqSet(Final(R, H, k, q.anc)) : k \in 1..n}              \* what the kernel reports as projected
      zero  == {Stop(R, H, k) : k \in {j \in 1..n : q.anc /\ R[j] = 0}}        \* the documented extra ancilla measurement
  IN W(SeqSet(q.c_heralded) = her \cup calH, "C13.heralded.circuit")
     \cup W(\A k \in 1..n : SeqSet(q.k_heralded[k]) = SeqSet(Heralded(R, H, k)), "C13.heralded.kernel")
     \cup W(\A s \in 0..2 : SeqSet(q.k_cal_her[s+1]) = SeqSet(CalHeralded(R, H, s)) /\ SeqSet(q.k_cal_proj[s+1]) = SeqSet(CalProjected(R, H, s)), "C13.calibration.kernel")
     \cup (IF q.anc
           THEN W(SeqSet(q.c_parity) = stab \cup finK, "C13.stabilizer.circuit")
                \cup W(SeqSet(q.c_final) = calP \cup zero, "C13.calibration.circuit")
           ELSE W(SeqSet(q.c_parity) = {}, "C13.stabilizer.circuit")
                \cup W(SeqSet(q.c_final) = calP \cup finK, "C13.projected.circuit"))
     \cup W(\A k \in 1..n : SeqSet(q.k_stab_proj[k]) = SeqSet(Stab(R, H, k, q.anc)) \cup SeqSet(Final(R, H, k, q.anc))
                            /\ SeqSet(q.k_proj[k]) = SeqSet(Final(R, H, k, q.anc)), "C13.stabilizer.kernel")
     \cup W(SeqSet(q.c_all) = 0..(Cycle(R, H) - 1) /\ Len(q.c_all) = Cycle(R, H), "C13.cycle")
     \cup W(SeqSet(q.c_all) = SeqSet(q.c_heralded) \cup SeqSet(q.c_parity) \cup SeqSet(q.c_final), "C13.tags")
     \* the calibration index the kernel reports for state s is the measurement of a qubit prepared in state s (and the
     \* heralded one before it follows a reset): what is done to the qubit since its previous measurement
     \cup W(\A s \in 0..2 :
              LET ix == CalProjected(R, H, s)[1]  hx == CalHeralded(R, H, s)[1]
                  at(x) == {j \in 1..Len(q.meas) : q.meas[j] = x} IN
              /\ Cardinality(at(ix)) = 1 /\ Cardinality(at(hx)) = 1
              /\ q.gates[CHOOSE j \in at(ix) : TRUE] = Prep[s + 1]
              /\ q.gates[CHOOSE j \in at(hx) : TRUE] = <<"Reset">>, "C13.calibration.state")

\* the property is stated per ANCILLA (a data qubit is not measured during the stabilizer rounds, so its per-qubit index space
\* is a different one); data qubits only have to keep heralded/final tags consistent with their own count
DataFails(r, q) == W(SeqSet(q.c_all) = 0..(Len(q.c_all) - 1) /\ SeqSet(q.c_all) = SeqSet(q.c_heralded) \cup SeqSet(q.c_final) /\ q.c_parity = <<>>, "C13.data.tags")
RowFails(r) == W(r.cycle = Cycle(r.rounds, 1), "C13.cycle.kernel")
               \cup UNION {IF r.qubits[k].anc THEN QubitFails(r, r.qubits[k]) ELSE DataFails(r, r.qubits[k]) : k \in 1..Len(r.qubits)}

Init == i = 1 /\ fails = <<>>
Step == /\ i <= Len(Rows)
        /\ LET f == RowFails(Rows[i]) IN fails' = IF f = {} THEN fails ELSE Append(fails, [row |-> i, clauses |-> f])
        /\ i' = i + 1
Done == /\ i = Len(Rows) + 1
        /\ JsonSerialize(IOEnv.VERIF_OUT, [n |-> Len(Rows), fails |-> fails])
        /\ i' = i + 1 /\ UNCHANGED fails
Next == Step \/ Done
Spec == Init /\ [][Next]_<<i, fails>>
=============================================================================
