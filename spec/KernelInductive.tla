-------------------------- MODULE KernelInductive --------------------------
(***************************************************************************)
(* Unbounded companion of IndexKernel.tla (property C12; advisory clause   *)
(* E12.inductive).  MCIndexKernel checks the closed-form kernel layout for *)
(* round counts and list lengths up to small constants.  Here the same     *)
(* layout is built the way the library builds it -- kernel after kernel,   *)
(* each starting at the previous stop + 1, then the calibration kernel,    *)
(* then one translate of the cycle per experiment repetition -- and the    *)
(* tiling statement is proved for EVERY round count (any natural number),  *)
(* EVERY number of blocks and EVERY number of repetitions by an inductive   *)
(* invariant that Apalache discharges (Init => IndInv, IndInv /\ Next =>   *)
(* IndInv').  Quantification over "any two earlier blocks / repetitions"   *)
(* is replaced by a witness (w..) that   nondeterministically remembers one    *)
(* arbitrary earlier block and one arbitrary earlier repetition; because    *)
(* the witness is arbitrary, what holds for it holds for all.  All          *)
(* arithmetic is linear (the repetition base is accumulated, not            *)
(* multiplied).                                                             *)
(***************************************************************************)
EXTENDS Integers

VARIABLES
  \* @type: Str;
  phase,      \* "blocks" -> "reps"
  \* @type: Int;
  H,          \* heralded initialisation 0/1
  \* @type: Int;
  K,          \* calibration points 0/1
  \* @type: Int;
  n,          \* blocks appended so far
  \* @type: Int;
  nxt,        \* next free index within the cycle
  \* @type: Int;
  lastR,      \* round count of the last block
  \* @type: Int;
  lastStart,
  \* @type: Int;
  lastStop,
  \* @type: Int;
  prevStop,   \* stop of the block before the last (-1 if none)
  \* @type: Int;
  wIdx,       \* witness: an arbitrary earlier block (0 = none)
  \* @type: Int;
  wStart,
  \* @type: Int;
  wStop,
  \* @type: Int;
  calStart,
  \* @type: Int;
  cycle,      \* cycle length, fixed when the calibration kernel is appended
  \* @type: Int;
  rep,        \* current repetition (1-based) in phase "reps"
  \* @type: Int;
  base,       \* offset of the current repetition = (rep - 1) * cycle, accumulated
  \* @type: Int;
  wRep,       \* witness: an arbitrary earlier repetition (0 = none)
  \* @type: Int;
  wBase

vars == <<phase, H, K, n, nxt, lastR, lastStart, lastStop, prevStop, wIdx, wStart, wStop, calStart, cycle, rep, base, wRep, wBase>>

BlockLen(r) == H + (IF r > 1 THEN r - 1 ELSE 0) + 1
CalLen      == K * (3 * H + 3)

Init ==
  /\ phase = "blocks" /\ H \in {0, 1} /\ K \in {0, 1}
  /\ n = 0 /\ nxt = 0 /\ lastR = 0 /\ lastStart = 0 /\ lastStop = -1 /\ prevStop = -1
  /\ wIdx = 0 /\ wStart = 0 /\ wStop = -1
  /\ calStart = 0 /\ cycle = 0 /\ rep = 0 /\ base = 0 /\ wRep = 0 /\ wBase = 0

\* append the kernel of a block of r rounds; the witness may move to the block that was last
Append(r) ==
  /\ phase = "blocks" /\ r >= 0
  /\ n' = n + 1 /\ lastR' = r /\ lastStart' = nxt /\ lastStop' = nxt + BlockLen(r) - 1 /\ nxt' = nxt + BlockLen(r)
  /\ prevStop' = lastStop
  /\ \/ UNCHANGED <<wIdx, wStart, wStop>>
     \/ n > 0 /\ wIdx' = n /\ wStart' = lastStart /\ wStop' = lastStop
  /\ UNCHANGED <<phase, H, K, calStart, cycle, rep, base, wRep, wBase>>

\* append the calibration kernel (or nothing when K = 0), fix the cycle length, start repetition 1
Close ==
  /\ phase = "blocks" /\ n > 0
  /\ phase' = "reps" /\ calStart' = nxt /\ cycle' = nxt + CalLen /\ rep' = 1 /\ base' = 0
  /\ UNCHANGED <<H, K, n, nxt, lastR, lastStart, lastStop, prevStop, wIdx, wStart, wStop, wRep, wBase>>

\* next experiment repetition: translate by the cycle length; the witness may move to the repetition that was current
NextRep ==
  /\ phase = "reps"
  /\ rep' = rep + 1 /\ base' = base + cycle
  /\ \/ UNCHANGED <<wRep, wBase>>
     \/ wRep' = rep /\ wBase' = base
  /\ UNCHANGED <<phase, H, K, n, nxt, lastR, lastStart, lastStop, prevStop, wIdx, wStart, wStop, calStart, cycle>>

Next == (\E r \in Nat : Append(r)) \/ Close \/ NextRep

-----------------------------------------------------------------------------
(* The statements of C12 at design level, for the last block against an     *)
(* arbitrary earlier one, and the current repetition against an arbitrary   *)
(* earlier one.                                                             *)
HeraldedIdx == lastStart                       \* exists iff H = 1
StabLo      == lastStart + H                   \* stabilizer indices StabLo..StabHi (empty iff lastR <= 1)
StabHi      == lastStart + H + lastR - 2
FinalIdx    == lastStop

Tiling ==
  /\ n > 0 => lastStart = prevStop + 1                                  \* contiguous
  /\ n = 1 => lastStart = 0                                             \* first block starts the cycle
  /\ n > 0 => (lastStop = nxt - 1 /\ lastStart <= lastStop /\ lastStart >= 0)
  /\ (wIdx > 0) => (wIdx < n /\ 0 <= wStart /\ wStart <= wStop /\ wStop < lastStart)   \* any two distinct blocks are disjoint, in order
Categories ==
  n > 0 =>
    /\ H = 1 => (lastStart <= HeraldedIdx /\ HeraldedIdx < StabLo)
    /\ lastR > 1 => (StabLo <= StabHi /\ StabHi < FinalIdx /\ StabHi - StabLo + 1 = lastR - 1)
    /\ lastR > 1 => StabHi + 1 = FinalIdx                              \* heralded, stabilizers, final cover the block
    /\ lastR <= 1 => StabLo = FinalIdx                                 \* a 0- or 1-round block: heralded (if any) then the final slot
    /\ lastStart <= FinalIdx /\ FinalIdx = lastStop
Calibration ==
  phase = "reps" =>
    /\ calStart = lastStop + 1 /\ cycle = calStart + CalLen /\ cycle > 0
    /\ K = 1 => \A s \in 0..2 :                                         \* heralded / projected slot of state s inside the kernel, ascending
          /\ calStart <= calStart + s * (H + 1) /\ calStart + s * (H + 1) + H < cycle
          /\ (s < 2 => calStart + s * (H + 1) + H < calStart + (s + 1) * (H + 1))
    /\ K = 1 => calStart + 2 * (H + 1) + H = cycle - 1                  \* the three states fill the kernel exactly
Translates ==
  phase = "reps" =>
    /\ rep >= 1 /\ base >= 0
    /\ (wRep > 0) => (wRep < rep /\ wBase >= 0 /\ wBase + cycle <= base)  \* the index ranges base..base+cycle-1 of two repetitions are disjoint
    /\ (rep = 1 => base = 0)

TypeOK ==
  /\ phase \in {"blocks", "reps"} /\ H \in {0, 1} /\ K \in {0, 1}
  /\ n >= 0 /\ nxt >= 0 /\ lastR >= 0 /\ wIdx >= 0 /\ wRep >= 0 /\ rep >= 0
  /\ n = 0 => (nxt = 0 /\ lastStop = -1 /\ wIdx = 0 /\ phase = "blocks")
  /\ phase = "blocks" => (rep = 0 /\ wRep = 0)
  /\ phase = "reps" => n > 0
  /\ n > 0 => lastStop = lastStart + BlockLen(lastR) - 1

IndInv == TypeOK /\ Tiling /\ Categories /\ Calibration /\ Translates
\* arbitrary state satisfying the invariant (Apalache needs every variable assigned from a set first)
IndInit ==
  /\ phase \in {"blocks", "reps"} /\ H \in {0, 1} /\ K \in {0, 1}
  /\ n \in Int /\ nxt \in Int /\ lastR \in Int /\ lastStart \in Int /\ lastStop \in Int /\ prevStop \in Int
  /\ wIdx \in Int /\ wStart \in Int /\ wStop \in Int /\ calStart \in Int /\ cycle \in Int
  /\ rep \in Int /\ base \in Int /\ wRep \in Int /\ wBase \in Int
  /\ IndInv
Spec == Init /\ [][Next]_vars
=============================================================================
