------------------------ MODULE KernelInductiveTrace ------------------------
(* Binding of KernelInductive.tla to the code (advisory clause               *)
(* E12.inductive.trace).  Every recorded RepetitionExperimentKernel is read   *)
(* as a behaviour of the action system: one Append per real index kernel     *)
(* (logged: round count, real start / stop index, real heralded / stabilizer  *)
(* / final indices), one Close (logged: real calibration start, real cycle    *)
(* length), one NextRep per further experiment repetition (logged: the real   *)
(* offset of that repetition's indices).  The witness variables are not       *)
(* logged: TLC chooses them, as in the proof.  IndInv is checked in every      *)
(* state.  One initial state per recorded row; a row is accepted when some     *)
(* behaviour consumes all of its events (printed as <<"ACCEPT", j>>).          *)
EXTENDS KernelInductive, Sequences, TLC, Json, IOUtils

Rows == JsonDeserialize(IOEnv.VERIF_IN)
VARIABLES j, l

Events == Rows[j].events
Ev     == Events[l]
IsEv(e) == l <= Len(Events) /\ Ev.ev = e /\ l' = l + 1 /\ j' = j

TInit == /\ j \in 1..Len(Rows) /\ l = 1
         /\ Init /\ H = Rows[j].H /\ K = Rows[j].K

TAppend ==
  /\ IsEv("Append") /\ Append(Ev.r)
  /\ lastStart' = Ev.start /\ lastStop' = Ev.stop                                  \* the real kernel's bounds
  /\ Ev.her  = (IF H = 1 THEN <<Ev.start>> ELSE <<>>)                              \* real ancilla heralded index
  /\ Ev.stab = [k \in 1..(IF Ev.r > 1 THEN Ev.r - 1 ELSE 0) |-> Ev.start + H + k - 1]   \* real ancilla stabilizer indices
  /\ Ev.fin  = <<Ev.stop>>                                                          \* real data-qubit final index
  /\ Ev.fina = (IF Ev.r = 0 THEN <<>> ELSE <<Ev.stop>>)                             \* real ancilla final index (none in a 0-round block)
  /\ Ev.herd = Ev.her                                                               \* data qubits are heralded at the same index
TClose ==
  /\ IsEv("Close") /\ Close
  /\ cycle' = Ev.cycle
  /\ (K = 1 => calStart' = Ev.calStart)
  \* real calibration indices of one ancilla, per prepared state s = 0, 1, 2: heralded slot (if H = 1) then projected slot
  /\ (K = 1 => /\ Ev.calHer  = [s \in 1..3 |-> IF H = 1 THEN <<Ev.calStart + (s - 1) * (H + 1)>> ELSE <<>>]
               /\ Ev.calProj = [s \in 1..3 |-> <<Ev.calStart + (s - 1) * (H + 1) + H>>])
TNextRep ==
  /\ IsEv("NextRep") /\ NextRep
  /\ base' = Ev.base
TFinish ==
  /\ l = Len(Events) + 1 /\ PrintT(<<"ACCEPT", j>>)
  /\ l' = l + 1 /\ j' = j /\ UNCHANGED vars

TNext == TAppend \/ TClose \/ TNextRep \/ TFinish
TSpec == TInit /\ [][TNext]_<<vars, j, l>>
=============================================================================
