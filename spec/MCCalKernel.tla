---------------------------- MODULE MCCalKernel ----------------------------
EXTENDS CalKernel, TLC
CONSTANTS MaxStart, MaxReps
VARIABLE k
Init == k = [s0 |-> 0, H |-> 0, F |-> 0, n |-> 0]
Next == /\ k.n = 0
        /\ \E s0 \in 0..MaxStart, H \in {0, 1}, F \in {0, 1}, n \in 1..MaxReps : k' = [s0 |-> s0, H |-> H, F |-> F, n |-> n]
Spec == Init /\ [][Next]_k
Inv == k.n > 0 => GPartition(k.s0, k.H, k.F, k.n)
=============================================================================
