----------------------------- MODULE MCCircuit -----------------------------
(* Model checking of the circuit state machine: on every reachable state of   *)
(* CircuitGen (bounded alphabet) the heap is well-formed and the observation  *)
(* computed from the constructive semantics satisfies every property clause   *)
(* of Clauses.tla (so the clause set used to judge the real library is        *)
(* satisfiable and agrees with the semantics); unrolling multiplies counts.   *)
EXTENDS CircuitGen, Clauses

\* hist is a history variable: hidden from the fingerprint so that equal abstract states merge
MCView == <<heap, tops, sealed, env>>
WF == WellFormed(heap)
SnapOK == \A c \in tops : heap[c].home = None =>
             ObsClauses(heap, env, c, SpecSnapshot(heap, env, c), [applied |-> c \in sealed, implicit |-> FALSE]) = {}

Key(H, i) == <<H[i].kind, H[i].qs, H[i].dur, H[i].tag>>
CountKey(H, c, k) == Cardinality({i \in Range(LeavesOf(H, c)) : Key(H, i) = k})
\* C06: occurrences after unrolling = content x product of the enclosing counts; counts reset; idempotent
UnrollProps ==
  [][\A c \in (sealed' \ sealed) \cap DOMAIN heap :
        /\ \A k \in {Key(heap, i) : i \in Range(LeavesOf(heap, c))} :
              CountKey(heap', c, k) =
                 LET S == {i \in Range(LeavesOf(heap, c)) : Key(heap, i) = k}
                     RECURSIVE Sum(_)
                     Sum(X) == IF X = {} THEN 0 ELSE LET x == CHOOSE y \in X : TRUE IN
                                 (LET m == Multiplicity(heap, env, c, x) IN IF m < 1 THEN 1 ELSE m) + Sum(X \ {x})
                 IN Sum(S)
        /\ \A b \in Blocks(heap', c) : heap'[b].rep = <<"fixed", 1>>
        /\ UnrollBlock(heap', env', c, Fresh, 0).n = 0                       \* a second application adds nothing
        /\ \A i \in Subtree(heap, c) : i \in Subtree(heap', c) /\ heap'[i].link = heap[i].link   \* others untouched
  ]_vars
\* C06: a block of duration T whose last-ending operation is a relation leaf occupies n*T
NTimesT ==
  [][\A c \in (sealed' \ sealed) \cap DOMAIN heap :
        LET n == EvalRep(env, heap[c].rep)
            TT == DurOf(heap, env, c)
            leafEnds == {RelEnd(heap, env, k) : k \in RelLeaves(heap, c)}
            allEnds  == {RelEnd(heap, env, k) : k \in Range(heap[c].kids)}
            starts   == {RelStart(heap, env, k) : k \in Range(heap[c].kids)}
            simple   == /\ heap[c].kids # <<>> /\ n >= 1
                        /\ \A k \in Range(heap[c].kids) : heap[k].t = "op"
                        /\ MaxOf(leafEnds) = MaxOf(allEnds) /\ MinOf(starts) = 0
        IN simple => DurOf(heap', env', c) = n * TT
  ]_vars
\* C05 (design theorem): a nested / explicit copy is isomorphic to its source and therefore has the same schedule relative to
\* its own start
CopyFaithful ==
  [][LET st == hist'[Len(hist')] IN
     (Len(hist') = Len(hist) + 1 /\ st.a \in {"AddSub", "CopyCirc"}) =>
        LET s == st.s  n == st.id
            f == [i \in Subtree(heap, s) |-> st.fm[CHOOSE j \in 1..Len(st.fm) : st.fm[j][1] = i][2]]
            Ls == LeavesOf(heap, s)  Ln == LeavesOf(heap', n) IN
        /\ IsoUnder(heap, heap', s, f)
        /\ Len(Ls) = Len(Ln)
        /\ \A j \in 1..Len(Ls) : /\ Ln[j] = f[Ls[j]]
                                  /\ OffsetIn(heap', env', n, Ln[j]) = OffsetIn(heap, env, s, Ls[j])
                                  /\ DurOf(heap', env', Ln[j]) = DurOf(heap, env, Ls[j])
        /\ DurOf(heap', env', n) = DurOf(heap, env, s)
        /\ Subtree(heap', n) \cap DOMAIN heap = {}                                   \* disjoint from everything that existed
  ]_vars
\* C05/C03: observations of one circuit do not depend on actions applied to another one
Independence ==
  [][\A c \in tops : (heap'[c] = heap[c] /\ Subtree(heap', c) = Subtree(heap, c) /\ env' = env
                        /\ \A i \in Subtree(heap, c) : heap'[i] = heap[i])
        => SpecSnapshot(heap', env', c) = SpecSnapshot(heap, env, c)]_vars
=============================================================================
