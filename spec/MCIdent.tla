------------------------------ MODULE MCIdent ------------------------------
(* Exhaustive model check of the identifier relations over a finite universe. *)
(* One state per probe (pair/triple of identifiers, pair of edges, sequence). *)
EXTENDS Ident, TLC

CONSTANTS NQ,      \* number of small qubit indices for channel identifiers (plus the large index 300)
          NE,      \* number of qubits for edges
          MaxLen   \* longest sequence for UniqueInOrder
VARIABLE probe

QV == (0..(NQ-1)) \cup {300}
ChanU == QV \X ChannelKinds
EdgeU == {e \in (0..(NE-1)) \X (0..(NE-1)) : e[1] # e[2]}
Elems == {"a", "b", "c"}
RECURSIVE SeqsUpTo(_)
SeqsUpTo(n) == IF n = 0 THEN {<<>>} ELSE LET S == SeqsUpTo(n-1) IN S \cup {Append(s, x) : s \in {t \in S : Len(t) = n-1}, x \in Elems}

Init == probe = <<"init">>
Next == /\ probe[1] = "init"
        /\ \/ \E a, b, c \in ChanU : probe' = <<"chan", a, b, c>>
           \/ \E e, f \in EdgeU : probe' = <<"edge", e, f>>
           \/ \E s \in SeqsUpTo(MaxLen) : probe' = <<"seq", s>>
Spec == Init /\ [][Next]_probe

ChanInv == probe[1] = "chan" =>
   LET a == probe[2]  b == probe[3]  c == probe[4] IN
   /\ Match(a, b) = Match(b, a)
   /\ Match(a, a)
   /\ (Match(a, b) => a[1] = b[1])
   /\ (Match(a, b) <=> (a[1] = b[1] /\ (a[2] = b[2] \/ "ALL" \in {a[2], b[2]})))
   \* the only failures of transitivity go through ALL
   /\ (Match(a, b) /\ Match(b, c) /\ ~Match(a, c) => b[2] = "ALL")
EdgeInv == probe[1] = "edge" =>
   LET e == probe[2]  f == probe[3] IN
   /\ EdgeEq(e, f) = EdgeEq(f, e)
   /\ EdgeEq(e, <<e[2], e[1]>>)
   /\ (EdgeEq(e, f) <=> (e = f \/ e = <<f[2], f[1]>>))
   /\ (EdgeEq(e, f) => EdgeKey(e) = EdgeKey(f))
SeqInv == probe[1] = "seq" => UniqueProps(probe[2])
NonTransitive == MatchNotTransitiveWitness(ChanU)
ASSUME NonTransitive
=============================================================================
