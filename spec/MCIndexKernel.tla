--------------------------- MODULE MCIndexKernel ---------------------------
(* Exhaustive model check of IndexKernel.tla: every list of distinct round   *)
(* counts from 0..MaxRound in any order, both heralded settings, repetitions *)
(* 1..MaxReps.  One state per experiment description.                        *)
EXTENDS IndexKernel, TLC
CONSTANTS MaxRound, MaxReps
VARIABLE exp

RECURSIVE Lists(_)
\* all sequences of distinct elements of S
Lists(S) == {<<>>} \cup UNION {{<<x>> \o t : t \in Lists(S \ {x})} : x \in S}
Universe == Lists(0..MaxRound) \ {<<>>}

Init == exp = [rounds |-> <<>>, H |-> 0, K |-> 1, reps |-> 0]
Next == /\ exp.reps = 0
        /\ \E r \in Universe, H \in {0, 1}, K \in {0, 1}, n \in 1..MaxReps : exp' = [rounds |-> r, H |-> H, K |-> K, reps |-> n]
Spec == Init /\ [][Next]_exp

Inv == exp.reps > 0 =>
         /\ Tiling(exp.rounds, exp.H) /\ CategoriesOK(exp.rounds, exp.H) /\ CalOK(exp.rounds, exp.H)
         /\ TranslateOK(exp.rounds, exp.H, exp.reps) /\ EstimateOK(exp.rounds, exp.H, exp.reps)
         /\ DatasetOK(exp.rounds, exp.H, exp.K, exp.reps)
=============================================================================
