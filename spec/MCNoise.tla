------------------------------- MODULE MCNoise -------------------------------
(* Every instruction sequence of length <= MaxLen over a small alphabet on two *)
(* qubits, under three settings tables: dressing only adds noise.             *)
EXTENDS Noise
CONSTANT MaxLen
VARIABLE st
Alphabet == {Ins("R", <<0>>, Plain), Ins("X", <<1>>, Plain), Ins("H", <<0>>, Plain), Ins("CZ", <<0, 1>>, Plain), Ins("M", <<0, 1>>, Plain),
             Ins("M", <<1>>, Plain), Ins("TICK", <<>>, Plain), Ins("DETECTOR", <<>>, Plain)}
Settings == { [durs |-> << <<"M", 4>>, <<"CZ", 3>>, <<"H", 2>>, <<"X", 1>> >>, default |-> <<1, 1, 1>>, individual |-> <<>>, index_map |-> <<>>],
              [durs |-> << <<"M", 1>>, <<"CZ", 4>>, <<"H", 2>>, <<"X", 3>> >>, default |-> <<1, 2, 1>>,
               individual |-> << <<"D1", <<2, 3, 2>>>>, <<"Z1", <<3, 1, 3>>>> >>, index_map |-> << <<0, "D1">>, <<1, "Z1">> >>],
              [durs |-> << <<"M", 2>>, <<"CZ", 1>>, <<"H", 4>>, <<"X", 3>> >>, default |-> <<3, 3, 3>>,
               individual |-> << <<"D1", <<2, 3, 2>>>> >>, index_map |-> << <<1, "D1">>, <<0, "Q9">> >>] }
RECURSIVE Seqs(_)
Seqs(n) == IF n = 0 THEN {<<>>} ELSE LET P == Seqs(n - 1) IN P \cup {Append(s, x) : s \in {t \in P : Len(t) = n - 1}, x \in Alphabet}
Init == st = [c |-> <<>>, s |-> CHOOSE x \in Settings : TRUE, fresh |-> TRUE]
Next == st.fresh /\ \E c \in Seqs(MaxLen), s \in Settings : st' = [c |-> c, s |-> s, fresh |-> FALSE]
Spec == Init /\ [][Next]_st
Inv == OnlyAddsNoise(st.c, st.s) /\ IdleCount(st.c, st.s)
=============================================================================
