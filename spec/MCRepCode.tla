------------------------------ MODULE MCRepCode ------------------------------
(* The protocol machine run as a state machine for every instance of a chain *)
(* of D data qubits (all initial data states, all ancilla states, cycles     *)
(* 0..MaxCycles, refocusing on/off); invariants relate it to closed forms.   *)
EXTENDS RepCode, TLC
CONSTANTS D, MaxCycles
VARIABLES inst, st

Bits(n) == [1..n -> {0, 1}]
Chain(data, anc, cycles, refocus) ==
  [data_idx |-> [j \in 1..D |-> 2 * (j - 1)], anc_idx |-> [j \in 1..(D - 1) |-> 2 * j - 1],
   neighbours |-> [j \in 1..(D - 1) |-> <<2 * j - 1, <<2 * j - 2, 2 * j>>>>],
   measured |-> [j \in 1..(2 * D - 1) |-> j - 1], data |-> data, anc |-> anc, cycles |-> cycles, refocus |-> refocus]
Init == /\ inst \in {Chain(d, a, c, r) : d \in Bits(D), a \in Bits(D - 1), c \in 0..MaxCycles, r \in BOOLEAN}
        /\ st = Start(inst)
Next == st.phase # "done" /\ st' = StepOf(inst, st) /\ UNCHANGED inst
Spec == Init /\ [][Next]_<<inst, st>>

\* at the end: block sizes, accumulated parity closed form (two-neighbour ancillas), final data, two-apart ancilla records equal
Done == st.phase = "done" =>
  /\ [k \in 1..Len(st.rec) |-> Cardinality(st.rec[k])] = BlockSizes(inst)
  /\ st = Run(inst)
  /\ \A c \in 1..inst.cycles : st.rec[1 + c] = {<<a, AncAt(inst, a, c)>> : a \in SeqSet(inst.anc_idx)}
  /\ st.rec[Len(st.rec)] = {<<q, FinalData(inst, q)>> : q \in SeqSet(inst.data_idx)}
  /\ \A c \in 3..inst.cycles : st.rec[1 + c] = st.rec[1 + c - 2]              \* m_c = m_(c-2): the bulk detectors are 0
Progress == st.c <= inst.cycles
=============================================================================
