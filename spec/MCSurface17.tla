---------------------------- MODULE MCSurface17 ----------------------------
(* Exhaustive exploration of all sets of at most K simultaneous gates.      *)
EXTENDS Surface17, FiniteSetsExt, TLC
CONSTANT K
VARIABLE S
Init == S = {}
Next == /\ S = {}
        /\ \E T \in UNION {kSubset(n, Edges) : n \in 1..K} : S' = T
Spec == Init /\ [][Next]_S
ASSUME DeviceOK
\* design theorems
DownwardClosed == Accept(S) => \A e \in S : Accept(S \ {e})
ParkOnlyIdle   == ParkSet(S) \cap QubitsOf(S) = {}
ParkLocal      == \A q \in ParkSet(S) : \E e \in S : \E m \in e : Adjacent(q, m)
\* the code's own formulation ("a neighbouring gated qubit of a higher group on the moving side") is equivalent on this device
CodeForm(q, T) == /\ q \notin QubitsOf(T)
                  /\ \E e \in T : \E m \in e : Adjacent(q, m) /\ Group[m] > Group[q] /\ m = High(e)
Equivalent == Disjoint(S) => \A q \in Qubits : NeedsPark(q, S) = CodeForm(q, S)
=============================================================================
