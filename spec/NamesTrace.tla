---------------------------- MODULE NamesTrace ----------------------------
(* C15, last clause: "the same circuit always yields the same program and kernel names" -- also across interpreter      *)
(* sessions.  Rows: the names one fixed circuit got in two separate sessions (different hash seeds).                     *)
EXTENDS TLC, Json, IOUtils, Sequences, Naturals
Rows == JsonDeserialize(IOEnv.VERIF_IN)
VARIABLES i, fails
Init == i = 1 /\ fails = <<>>
Step == /\ i <= Len(Rows)
        /\ fails' = IF Rows[i].a.status = "ok" /\ Rows[i].b.status = "ok" /\ Rows[i].a.names = Rows[i].b.names /\ Len(Rows[i].a.names) >= 2
                    THEN fails ELSE Append(fails, [row |-> i, circuit |-> Rows[i].a.circuit, a |-> Rows[i].a.names, b |-> Rows[i].b.names])
        /\ i' = i + 1
Done == /\ i = Len(Rows) + 1
        /\ JsonSerialize(IOEnv.VERIF_OUT, [n |-> Len(Rows), fails |-> fails])
        /\ i' = i + 1 /\ UNCHANGED fails
Next == Step \/ Done
Spec == Init /\ [][Next]_<<i, fails>>
=============================================================================
