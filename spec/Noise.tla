-------------------------------- MODULE Noise --------------------------------
(***************************************************************************)
(* Circuit-level noise dressing (property C14) on flattened instruction    *)
(* sequences.  An instruction is [name, targets, cls]; cls classifies the  *)
(* numeric argument: <<"plain">>, <<"ae", id>> (a measurement carrying the *)
(* assignment error of parameter class id) or <<"idle", key, t1, t2>> (a   *)
(* PAULI_CHANNEL_1 following the T1/T2 formula for half the configured     *)
(* duration of operation class `key`, with the T1/T2 of classes t1, t2).   *)
(* Numbers themselves are outside TLA+ (no reals): the harness evaluates   *)
(* the closed form for the selection made here.                            *)
(***************************************************************************)
EXTENDS Integers, Sequences, FiniteSets, TLC

Ins(name, targets, cls) == [name |-> name, targets |-> targets, cls |-> cls]
Plain == <<"plain">>
SeqSet(s) == {s[j] : j \in 1..Len(s)}
Flat(ss) == LET F[k \in 0..Len(ss)] == IF k = 0 THEN <<>> ELSE F[k-1] \o ss[k] IN F[Len(ss)]

\* settings: durs = sequence of <<name as Stim reports it, rank>> (higher rank = longer configured duration, rank 0 = none),
\*           default = <<t1, t2, ae>>, individual = sequence of <<identifier, <<t1, t2, ae>>>>, index_map = sequence of <<qubit index, identifier>>
ParamsOf(S, q) ==
  LET m == {j \in 1..Len(S.index_map) : S.index_map[j][1] = q} IN
  IF m = {} THEN S.default
  ELSE LET id == S.index_map[CHOOSE j \in m : TRUE][2]
           n == {j \in 1..Len(S.individual) : S.individual[j][1] = id} IN
       IF n = {} THEN S.default ELSE S.individual[CHOOSE j \in n : TRUE][2]
RankOf(S, name) == LET m == {j \in 1..Len(S.durs) : S.durs[j][1] = name} IN IF m = {} THEN 0 ELSE S.durs[CHOOSE j \in m : TRUE][2]

\* stage 1: every measurement target becomes one noisy measurement carrying the assignment error selected for its qubit
Stage1(c, S) ==
  Flat([k \in 1..Len(c) |->
         IF c[k].name = "M" THEN [j \in 1..Len(c[k].targets) |-> Ins("M", <<c[k].targets[j]>>, <<"ae", ParamsOf(S, c[k].targets[j])[3]>>)]
         ELSE <<c[k]>>])

\* blocks: maximal runs ending with (and including) each TICK, plus the (possibly empty) tail
RECURSIVE BlocksOf(_)
BlocksOf(c) ==
  LET ticks == {k \in 1..Len(c) : c[k].name = "TICK"} IN
  IF ticks = {} THEN <<c>>
  ELSE LET t == CHOOSE k \in ticks : \A m \in ticks : k <= m IN <<SubSeq(c, 1, t)>> \o BlocksOf(SubSeq(c, t + 1, Len(c)))

\* the operation class of maximal configured duration in a block ("none" if nothing in it has a configured duration),
\* measurements included
KeyOf(b, S) ==
  LET names == {b[k].name : k \in 1..Len(b)}
      best == {n \in names : RankOf(S, n) > 0 /\ \A m \in names : RankOf(S, m) <= RankOf(S, n)} IN
  IF best = {} THEN "none" ELSE CHOOSE n \in best : TRUE

AllTargets(c) == UNION {SeqSet(c[k].targets) : k \in {x \in 1..Len(c) : c[x].name \notin {"DETECTOR", "OBSERVABLE_INCLUDE", "SHIFT_COORDS"}}}
Ascending(Sx) == LET F[n \in 0..Cardinality(Sx)] ==
                       IF n = 0 THEN <<>> ELSE LET rest == Sx \ SeqSet(F[n-1]) IN Append(F[n-1], CHOOSE x \in rest : \A y \in rest : x <= y)
                 IN F[Cardinality(Sx)]
Rev(s) == [k \in 1..Len(s) |-> s[Len(s) + 1 - k]]

Idle(q, key, S) == Ins("PAULI_CHANNEL_1", <<q>>, <<"idle", key, ParamsOf(S, q)[1], ParamsOf(S, q)[2]>>)
Dress(c, S) ==
  LET c1 == Stage1(c, S)
      qs == Ascending(AllTargets(c1))
      bs == BlocksOf(c1)
  IN Flat([k \in 1..Len(bs) |->
            LET key == KeyOf(bs[k], S)
                idles == [j \in 1..Len(qs) |-> Idle(qs[j], key, S)]
            IN Rev(idles) \o bs[k] \o idles])

\* stripping the noise: remove idle channels, forget measurement arguments; input with fused targets split
Strip(d) == LET keep == SelectSeq(d, LAMBDA x : x.name # "PAULI_CHANNEL_1") IN [k \in 1..Len(keep) |-> [keep[k] EXCEPT !.cls = Plain]]
SplitM(c) == Flat([k \in 1..Len(c) |-> IF c[k].name = "M" THEN [j \in 1..Len(c[k].targets) |-> Ins("M", <<c[k].targets[j]>>, Plain)] ELSE <<[c[k] EXCEPT !.cls = Plain]>>])
OnlyAddsNoise(c, S) == Strip(Dress(c, S)) = SplitM(c)
IdleCount(c, S) == Cardinality({k \in 1..Len(Dress(c, S)) : Dress(c, S)[k].name = "PAULI_CHANNEL_1"})
                   = 2 * Cardinality(AllTargets(c)) * (Cardinality({k \in 1..Len(c) : c[k].name = "TICK"}) + 1)
=============================================================================
