----------------------------- MODULE NoiseTrace -----------------------------
(* Binding for C14: outputs of the real apply_noise, with every numeric      *)
(* argument classified by the harness, are compared with Dress of Noise.tla. *)
EXTENDS Noise, Json, IOUtils
Rows == JsonDeserialize(IOEnv.VERIF_IN)
VARIABLES i, fails
W(cond, name) == IF cond THEN {} ELSE {name}
Proj(s) == [k \in 1..Len(s) |-> Ins(s[k].name, s[k].targets, s[k].cls)]
\* an idle channel of key "none" has all-zero probabilities whatever T1/T2 are: compare it without them
Norm(x) == IF x.name = "PAULI_CHANNEL_1" /\ x.cls[2] = "none" THEN [x EXCEPT !.cls = <<"idle", "none", 0, 0>>] ELSE x
NormSeq(s) == [k \in 1..Len(s) |-> Norm(s[k])]

\* two dressed sequences agree up to the order of the idle channels within one insertion point: every maximal run of idle
\* channels is compared as a set (plus its length), everything else in order
IsNoise(x) == x.name = "PAULI_CHANNEL_1"
Canon(s, f(_)) ==
  LET F[k \in 0..Len(s)] ==
        IF k = 0 THEN <<>>
        ELSE LET x == s[k]  P == F[k-1] IN
             IF IsNoise(x) /\ k > 1 /\ IsNoise(s[k-1])
             THEN [P EXCEPT ![Len(P)] = [noise |-> TRUE, items |-> @.items \cup {f(x)}, n |-> @.n + 1]]
             ELSE Append(P, [noise |-> IsNoise(x), items |-> {f(x)}, n |-> 1])
  IN F[Len(s)]
SameNoise(a, b, f(_)) == Canon(a, f) = Canon(b, f)

RowFails(r) ==
  LET inp == Proj(r.input)  out == Proj(r.output)  want == Dress(inp, r.settings)
      strip(s) == SelectSeq(s, LAMBDA x : x.name # "PAULI_CHANNEL_1")
      names(s) == [k \in 1..Len(s) |-> <<s[k].name, s[k].targets>>]
  IN W(names(strip(out)) = names(SplitM(inp)) /\ r.without_noise_equal, "C14.strip")                              \* only noise is inserted
     \cup W(\A k \in 1..Len(r.output) : r.output[k].range_ok, "C14.range")
     \cup W(SelectSeq(out, LAMBDA x : x.name = "M") = SelectSeq(want, LAMBDA x : x.name = "M"), "C14.measurement")   \* assignment error selected per qubit
     \* where the idle channels sit, and which (duration class, T1, T2) they follow.  Idle channels inserted at the same place
     \* (between the same two instructions of the input) act on different qubits and commute: their relative order is left open
     \cup W(SameNoise(out, want, LAMBDA x : <<x.name, x.targets>>), "C14.placement")
     \cup (IF SameNoise(out, want, LAMBDA x : <<x.name, x.targets>>) THEN W(SameNoise(out, want, Norm), "C14.selection") ELSE {})

Init == i = 1 /\ fails = <<>>
Step == /\ i <= Len(Rows)
        /\ LET f == RowFails(Rows[i]) IN fails' = IF f = {} THEN fails ELSE Append(fails, [row |-> i, clauses |-> f])
        /\ i' = i + 1
Done == /\ i = Len(Rows) + 1
        /\ JsonSerialize(IOEnv.VERIF_OUT, [n |-> Len(Rows), fails |-> fails])
        /\ i' = i + 1 /\ UNCHANGED fails
Next == Step \/ Done
Spec == Init /\ [][Next]_<<i, fails>>
=============================================================================
