----------------------------- MODULE NoiseTrace -----------------------------
(* Binding for C14: outputs of the real apply_noise, with every numeric      *)
(* argument classified by the harness, are compared with Dress of Noise.tla. *)
EXTENDS Noise, Json, IOUtils
Rows == JsonDeserialize(IOEnv.VERIF_IN)
VARIABLES i, fails
W(cond, name) == IF cond THEN {} ELSE {name}
Proj(s) == [k \in 1..Len(s) |-> Ins(s[k].name, s[k].targets, s[k].cls)]
\* an idle channel of key "none" has all-zero probabilities whatever T1/T2 are: compare it without them
Norm(x) == IF x.name = "PAULI_CHANNEL_1" /\ x.cls[2] = "none" THEN [x EXCEPT !.cls = <<"idle", "none", 0, 0>>] ELSE x
NormSeq(s) == [k \in 1..Len(s) |-> Norm(s[k])]

RowFails(r) ==
  LET inp == Proj(r.input)  out == Proj(r.output)  want == Dress(inp, r.settings)
      strip(s) == SelectSeq(s, LAMBDA x : x.name # "PAULI_CHANNEL_1")
      names(s) == [k \in 1..Len(s) |-> <<s[k].name, s[k].targets>>]
  IN W(names(strip(out)) = names(SplitM(inp)) /\ r.without_noise_equal, "C14.strip")                              \* only noise is inserted
     \cup W(\A k \in 1..Len(r.output) : r.output[k].range_ok, "C14.range")
     \cup W(SelectSeq(out, LAMBDA x : x.name = "M") = SelectSeq(want, LAMBDA x : x.name = "M"), "C14.measurement")   \* assignment error selected per qubit
     \cup W(names(out) = names(want), "C14.placement")                                                                \* where the idle channels sit
     \cup (IF names(out) = names(want) THEN W(NormSeq(out) = NormSeq(want), "C14.selection") ELSE {})                \* which (duration class, T1, T2) they follow

Init == i = 1 /\ fails = <<>>
Step == /\ i <= Len(Rows)
        /\ LET f == RowFails(Rows[i]) IN fails' = IF f = {} THEN fails ELSE Append(fails, [row |-> i, clauses |-> f])
        /\ i' = i + 1
Done == /\ i = Len(Rows) + 1
        /\ JsonSerialize(IOEnv.VERIF_OUT, [n |-> Len(Rows), fails |-> fails])
        /\ i' = i + 1 /\ UNCHANGED fails
Next == Step \/ Done
Spec == Init /\ [][Next]_<<i, fails>>
=============================================================================
