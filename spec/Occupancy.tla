------------------------------ MODULE Occupancy ------------------------------
(***************************************************************************)
(* C10: in a library circuit no two operations of non-zero length that     *)
(* occupy a common qubit channel overlap in time, and no operation         *)
(* overlaps a barrier on one of the barrier's qubits -- for EVERY positive *)
(* global duration setting.                                                *)
(* The structure of one circuit (operations, channels, duration terms,     *)
(* relations, blocks) is recorded from the real constructor once; the only *)
(* variable is the configuration.  For each configuration of the grid the  *)
(* specification solves the relation equations itself (a fold along a      *)
(* topological order of the relation graph, which it checks) and evaluates *)
(* the occupancy predicates.  The fold is bound to the code by comparing    *)
(* its times with the times the code reports under a sample of the same     *)
(* configurations (C10.times).                                              *)
(***************************************************************************)
EXTENDS Ident, Integers, TLC, Json, IOUtils, SequencesExt

St == JsonDeserialize(IOEnv.VERIF_IN)      \* [nodes: id -> record, topo: seq of ids, grid: seq of values, samples: seq of [cfg, times]]
CONSTANT MaxCfg                            \* 0 = whole grid
VARIABLES k, fails

N == St.nodes

MaxOf(S) == CHOOSE x \in S : \A y \in S : y <= x
MinOf(S) == CHOOSE x \in S : \A y \in S : x <= y
Vals == St.grid
NV == Len(Vals)
NCfg == IF "recorded" \in DOMAIN St THEN Len(St.recorded) ELSE IF MaxCfg = 0 THEN NV * NV * NV * NV ELSE MaxCfg
\* the j-th configuration of the grid (j from 0), mixed radix over RO, MW, FL, RST
Cfg(j) == [RO |-> Vals[(j % NV) + 1], MW |-> Vals[((j \div NV) % NV) + 1], FL |-> Vals[((j \div (NV * NV)) % NV) + 1],
           RST |-> Vals[((j \div (NV * NV * NV)) % NV) + 1]]

Dur(term, cfg) ==
  CASE term[1] = "fixed"    -> term[2]
    [] term[1] = "global"   -> cfg[term[2]]
    [] term[1] = "decouple" -> (IF cfg.RO > cfg.MW THEN (cfg.RO - cfg.MW) \div 2 ELSE 0)
    [] OTHER -> 0

\* times of every node, by a left fold along the recorded topological order
Times(cfg) ==
  LET F[n \in 0..Len(St.topo)] ==
        IF n = 0 THEN <<>>
        ELSE LET T == F[n-1]  i == St.topo[n]  r == N[i]
                 d == IF r.t = "op" THEN Dur(r.dur, cfg)
                      ELSE LET ms == Range(r.members) IN
                           IF ms = {} THEN 0 ELSE MaxOf({T[m].e : m \in ms}) - MinOf({T[m].s : m \in ms})
                 L == r.rlink
                 s == CASE L.k = "none" -> 0
                        [] L.k = "one" -> (CASE L.rt = "FB" -> T[L.ref].e [] L.rt = "JS" -> T[L.ref].s [] L.rt = "JE" -> T[L.ref].e - d)
                        [] L.k = "multi" -> MaxOf({T[m].e : m \in Range(L.refs)})
             IN [x \in DOMAIN T \cup {i} |-> IF x = i THEN [s |-> s, e |-> s + d] ELSE T[x]]
  IN F[Len(St.topo)]

\* the recorded order really is topological (every node comes after what its time depends on)
TopoOK ==
  \A n \in 1..Len(St.topo) :
    LET i == St.topo[n]  r == N[i]  before == {St.topo[m] : m \in 1..(n-1)}
        deps == (IF r.t = "comp" THEN Range(r.members) ELSE {})
                \cup (IF r.rlink.k = "one" THEN {r.rlink.ref} ELSE IF r.rlink.k = "multi" THEN Range(r.rlink.refs) ELSE {})
    IN deps \subseteq before

Leaves == {i \in DOMAIN N : N[i].t = "op"}
\* pairs of operations that share a qubit channel (constant of the structure)
Sharing == {p \in Leaves \X Leaves : p[1] # p[2] /\ AnyMatch(Range(N[p[1]].chans), Range(N[p[2]].chans))}
IsBarrier(i) == N[i].kind = "Barrier"
Overlap(a, b) == (IF a.s > b.s THEN a.s ELSE b.s) < (IF a.e < b.e THEN a.e ELSE b.e)
Inside(p, b) == b.s < p.s /\ p.s < b.e                          \* a zero-length operation strictly inside a barrier

\* If the fold and the code disagree on a sampled time (model drift), the driver records the code's own times for EVERY
\* configuration of the grid and the predicates are evaluated on those: St.recorded[k+1] = [cfg, times].
Recorded == "recorded" \in DOMAIN St
TimesAt(j) == IF Recorded
              THEN LET tm == St.recorded[j + 1].times IN [x \in DOMAIN tm |-> [s |-> tm[x][1], e |-> tm[x][2]]]
              ELSE Times(Cfg(j))
CfgFailsAt(j) ==
  LET T == TimesAt(j) IN
  {<<"C10.overlap", p[1], p[2]>> : p \in {q \in Sharing : T[q[1]].e > T[q[1]].s /\ T[q[2]].e > T[q[2]].s /\ Overlap(T[q[1]], T[q[2]])}}
  \cup {<<"C10.barrier", p[1], p[2]>> : p \in {q \in Sharing : IsBarrier(q[2]) /\ T[q[1]].e = T[q[1]].s /\ Inside(T[q[1]], T[q[2]])}}

\* binding: the fold reproduces the times the real code reports under the sampled configurations
SampleFails ==
  UNION {LET sm == St.samples[j]  T == Times(sm.cfg) IN
         {<<"C10.times", i, j>> : i \in {x \in DOMAIN T : x \in DOMAIN sm.times /\ (T[x].s # sm.times[x][1] \/ T[x].e # sm.times[x][2])}}
         : j \in 1..Len(St.samples)}

Init == k = 0 /\ fails = (IF TopoOK THEN {} ELSE {<<"C10.topological_order", "", "", "">>})
Step == /\ k < NCfg
        /\ LET f == CfgFailsAt(k) IN
             fails' = IF f = {} \/ Cardinality(fails) > 40 THEN fails ELSE fails \cup {<<x[1], x[2], x[3], ToString(IF Recorded THEN St.recorded[k + 1].cfg ELSE Cfg(k))>> : x \in f}
        /\ k' = k + 1
Done == /\ k = NCfg
        /\ JsonSerialize(IOEnv.VERIF_OUT, [configs |-> NCfg, sharing |-> Cardinality(Sharing), topo_ok |-> TopoOK,
                                           fails |-> SetToSeq(fails), sample_fails |-> SetToSeq(SampleFails)])
        /\ k' = k + 1 /\ UNCHANGED fails
Next == Step \/ Done
Spec == Init /\ [][Next]_<<k, fails>>
=============================================================================
