------------------------------- MODULE RepCode -------------------------------
(***************************************************************************)
(* The repetition-code protocol as a classical machine on computational-   *)
(* basis states (property C09).  An instance is                             *)
(*   data_idx, anc_idx   the circuit indices of data / ancilla qubits       *)
(*   nb                  per ancilla, the data qubits it shares a gate with *)
(*   data, anc           requested initial bits (anc defaults to 0)         *)
(*   cycles, refocus                                                        *)
(* Herald    : every measured qubit is measured once, result 0              *)
(* Prepare   : qubits take their requested values                           *)
(* QecCycle  : every ancilla accumulates the parity of its data neighbours  *)
(*             (no ancilla reset), is measured; data qubits are flipped in  *)
(*             every cycle but the last when refocusing is on               *)
(* Final     : (0 cycles: ancillas are measured once first;) data measured. *)
(* A record block is a set of <<qubit, bit>> (the order inside one block is *)
(* the export's business, C07/C08); the record is the sequence of blocks.   *)
(***************************************************************************)
EXTENDS Integers, Sequences, FiniteSets

SeqSet(s) == {s[j] : j \in 1..Len(s)}
Xor(a, b) == (a + b) % 2
RECURSIVE XorAll(_, _)
XorAll(f, S) == IF S = {} THEN 0 ELSE LET x == CHOOSE y \in S : TRUE IN Xor(f[x], XorAll(f, S \ {x}))

Nb(I, a) == LET hits == {j \in 1..Len(I.neighbours) : I.neighbours[j][1] = a} IN
            IF hits = {} THEN {} ELSE SeqSet(I.neighbours[CHOOSE j \in hits : TRUE][2])
Data0(I) == [q \in SeqSet(I.data_idx) |-> I.data[CHOOSE j \in 1..Len(I.data_idx) : I.data_idx[j] = q]]
Anc0(I)  == [q \in SeqSet(I.anc_idx) |-> IF I.anc = <<>> THEN 0 ELSE I.anc[CHOOSE j \in 1..Len(I.anc_idx) : I.anc_idx[j] = q]]

\* machine state: [d, a, rec (sequence of blocks), phase, c]
Start(I)   == [d |-> [q \in SeqSet(I.data_idx) |-> 0], a |-> [q \in SeqSet(I.anc_idx) |-> 0], rec |-> <<>>, phase |-> "herald", c |-> 0]
Herald(I, s)  == [s EXCEPT !.rec = Append(@, {<<q, 0>> : q \in SeqSet(I.measured)}), !.phase = "prepare"]
Prepare(I, s) == [s EXCEPT !.d = Data0(I), !.a = Anc0(I), !.phase = IF I.cycles = 0 THEN "final" ELSE "cycle"]
QecCycle(I, s) ==
  LET a2 == [a \in DOMAIN s.a |-> Xor(s.a[a], XorAll(s.d, Nb(I, a)))]
      last == s.c + 1 = I.cycles
      d2 == IF I.refocus /\ ~last THEN [q \in DOMAIN s.d |-> 1 - s.d[q]] ELSE s.d
  IN [s EXCEPT !.a = a2, !.d = d2, !.c = @ + 1, !.rec = Append(@, {<<a, a2[a]>> : a \in DOMAIN a2}), !.phase = IF last THEN "final" ELSE "cycle"]
Final(I, s) ==
  LET r1 == IF I.cycles = 0 THEN Append(s.rec, {<<a, s.a[a]>> : a \in DOMAIN s.a}) ELSE s.rec
  IN [s EXCEPT !.rec = Append(r1, {<<q, s.d[q]>> : q \in DOMAIN s.d}), !.phase = "done"]
StepOf(I, s) == CASE s.phase = "herald" -> Herald(I, s) [] s.phase = "prepare" -> Prepare(I, s)
                  [] s.phase = "cycle" -> QecCycle(I, s) [] s.phase = "final" -> Final(I, s) [] OTHER -> s
RECURSIVE RunFrom(_, _)
RunFrom(I, s) == IF s.phase = "done" THEN s ELSE RunFrom(I, StepOf(I, s))
Run(I) == RunFrom(I, Start(I))

\* sizes of the record blocks, in order
BlockSizes(I) == <<Len(I.measured)>> \o [k \in 1..(IF I.cycles = 0 THEN 1 ELSE I.cycles) |-> Len(I.anc_idx)] \o <<Len(I.data_idx)>>
NDetectors(I) == Len(I.anc_idx) * (I.cycles + 1)

\* closed forms (checked against the machine by TLC in MCRepCode)
ParityOf(I, a) == XorAll(Data0(I), Nb(I, a))
AncAt(I, a, c) == Xor(Anc0(I)[a], (c * ParityOf(I, a)) % 2)                  \* a global data flip keeps every two-neighbour parity
FinalData(I, q) == IF I.refocus /\ I.cycles > 1 /\ (I.cycles - 1) % 2 = 1 THEN 1 - Data0(I)[q] ELSE Data0(I)[q]
=============================================================================
