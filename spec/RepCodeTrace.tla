---------------------------- MODULE RepCodeTrace ----------------------------
(* Binding for C09: records obtained by executing the exported circuit of the *)
(* real constructors with Stim's noiseless sampler are compared with the      *)
(* protocol machine of RepCode.tla.                                           *)
EXTENDS RepCode, TLC, Json, IOUtils
Rows == JsonDeserialize(IOEnv.VERIF_IN)
VARIABLES i, fails
W(cond, name) == IF cond THEN {} ELSE {name}

\* cut the flat record into blocks of the protocol's sizes
Blocks(mrec, sizes) ==
  LET off[k \in 0..Len(sizes)] == IF k = 0 THEN 0 ELSE off[k-1] + sizes[k]
  IN [k \in 1..Len(sizes) |-> {<<mrec[j][1], mrec[j][2]>> : j \in (off[k-1] + 1)..off[k]}]
SumSeq(s) == LET F[k \in 0..Len(s)] == IF k = 0 THEN 0 ELSE F[k-1] + s[k] IN F[Len(s)]

RowFails(r) ==
  IF r.err # "" THEN {"C09.exception"}
  ELSE LET sizes == BlockSizes(r)  want == Run(r).rec IN
       W(Len(r.mrec) = SumSeq(sizes), "C09.record.length")
       \cup (IF Len(r.mrec) = SumSeq(sizes)
             THEN LET got == Blocks(r.mrec, sizes) IN
                  W(got[1] = want[1], "C09.record.herald")
                  \cup W(\A k \in 2..(Len(sizes) - 1) : got[k] = want[k], "C09.record.parity")
                  \cup W(got[Len(sizes)] = want[Len(sizes)], "C09.record.final")
                  \* the requested initial states are what the first parity / final blocks reveal
                  \cup (IF r.cycles = 0 THEN W(got[2] = {<<a, Anc0(r)[a]>> : a \in SeqSet(r.anc_idx)}, "C09.prepared.ancilla")
                                               \cup W(got[3] = {<<q, Data0(r)[q]>> : q \in SeqSet(r.data_idx)}, "C09.prepared.data")
                        ELSE {})
             ELSE {})
       \cup W(r.ndet = NDetectors(r), "C09.count.detectors")
       \cup W(r.nobs = 1, "C09.count.observable")
       \cup W(r.shots_equal /\ r.det_equal /\ r.dem_ok, "C09.deterministic")
       \* for the main constructor unrolling / flattening leave the exported program behaviour unchanged (same record is implied above)

Init == i = 1 /\ fails = <<>>
Step == /\ i <= Len(Rows)
        /\ LET f == RowFails(Rows[i]) IN fails' = IF f = {} THEN fails ELSE Append(fails, [row |-> i, clauses |-> f])
        /\ i' = i + 1
Done == /\ i = Len(Rows) + 1
        /\ JsonSerialize(IOEnv.VERIF_OUT, [n |-> Len(Rows), fails |-> fails])
        /\ i' = i + 1 /\ UNCHANGED fails
Next == Step \/ Done
Spec == Init /\ [][Next]_<<i, fails>>
=============================================================================
