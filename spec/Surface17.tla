----------------------------- MODULE Surface17 -----------------------------
(***************************************************************************)
(* The Surface-17 device as the specification sees it (properties C16,     *)
(* C17): 17 qubits, 24 edges, three frequency groups, eight parity groups. *)
(* The constants are OWNED by the specification; the tables of the code    *)
(* are recorded and compared with them (C16.layout), so an edit of a table *)
(* entry shows up instead of being mirrored on both sides.                 *)
(***************************************************************************)
EXTENDS Integers, Sequences, FiniteSets

Data == {"D1", "D2", "D3", "D4", "D5", "D6", "D7", "D8", "D9"}
AncZ == {"Z1", "Z2", "Z3", "Z4"}
AncX == {"X1", "X2", "X3", "X4"}
Qubits == Data \cup AncZ \cup AncX

E(a, b) == {a, b}                      \* an edge is an unordered pair (Ident!EdgeKey)
Edges == { E("D1","Z1"), E("D1","X1"), E("D2","X1"), E("D2","Z1"), E("D2","X2"), E("D3","X2"), E("D3","Z2"),
           E("D4","Z3"), E("D4","X3"), E("D4","Z1"), E("D5","Z1"), E("D5","X3"), E("D5","Z4"), E("D5","X2"),
           E("D6","X2"), E("D6","Z4"), E("D6","Z2"), E("D7","Z3"), E("D7","X3"), E("D8","X3"), E("D8","X4"),
           E("D8","Z4"), E("D9","Z4"), E("D9","X4") }

LOW == 1  MID == 2  HIGH == 3
Group == [q \in Qubits |->
            IF q \in {"D4", "D5", "D6"} THEN HIGH
            ELSE IF q \in Data THEN LOW ELSE MID]

Parity == [a \in AncZ \cup AncX |->
   CASE a = "X1" -> {"D1", "D2"}             [] a = "X2" -> {"D2", "D3", "D5", "D6"}
     [] a = "X3" -> {"D4", "D5", "D7", "D8"} [] a = "X4" -> {"D8", "D9"}
     [] a = "Z1" -> {"D1", "D2", "D4", "D5"} [] a = "Z2" -> {"D3", "D6"}
     [] a = "Z3" -> {"D4", "D7"}             [] a = "Z4" -> {"D5", "D6", "D8", "D9"}]

Adjacent(a, b) == {a, b} \in Edges
Neighbours(q)  == {p \in Qubits : Adjacent(p, q)}
MinOf(S) == CHOOSE x \in S : \A y \in S : x <= y
Level(e) == MinOf({Group[q] : q \in e})                         \* both qubits of a gate operate at the lower member's level
High(e)  == CHOOSE q \in e : \A p \in e : Group[p] <= Group[q]  \* the moving member
QubitsOf(S) == UNION S

\* C16: a set of two-qubit gates is accepted as simultaneous iff no qubit takes part in two of them and no two neighbouring
\* qubits (of different gates) end up at the same operating level.
Disjoint(S) == \A e, f \in S : e # f => e \cap f = {}
Accept(S) ==
  /\ Disjoint(S)
  /\ \A e, f \in S : e # f /\ Level(e) = Level(f) => ~(\E a \in e, b \in f : Adjacent(a, b))

\* an idle qubit requires parking iff it neighbours the moving member of an active gate and idles at that gate's level
NeedsPark(q, S) ==
  /\ q \notin QubitsOf(S)
  /\ \E e \in S : \E m \in e : m = High(e) /\ Cardinality({Group[x] : x \in e}) = 2 /\ Adjacent(q, m) /\ Group[q] = Level(e)
ParkSet(S) == {q \in Qubits : NeedsPark(q, S)}

\* structural facts of the device (checked by TLC in MCSurface17)
DeviceOK ==
  /\ Cardinality(Qubits) = 17 /\ Cardinality(Edges) = 24
  /\ \A e \in Edges : Cardinality(e) = 2 /\ Cardinality(e \cap Data) = 1            \* every edge joins a data and an ancilla qubit
  /\ \A a \in DOMAIN Parity : Parity[a] = Neighbours(a)                            \* parity groups are the ancilla's neighbourhoods
  /\ \A e \in Edges : Cardinality({Group[x] : x \in e}) = 2                        \* never two qubits of one group on an edge
=============================================================================
