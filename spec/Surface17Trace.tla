--------------------------- MODULE Surface17Trace ---------------------------
(* Binding for C16 (table of acceptance / parking verdicts and generator runs  *)
(* recorded from the real code) and C17 (shipped and derived gate-sequence     *)
(* layouts recorded as behaviours, validated layer by layer).                  *)
EXTENDS Surface17, FiniteSetsExt, TLC, Json, IOUtils

Rows == JsonDeserialize(IOEnv.VERIF_IN)
CONSTANT CoverK                  \* all subsets of size <= CoverK must be present in the table
VARIABLES i, fails
W(cond, name) == IF cond THEN {} ELSE {name}
SeqSet(s) == {s[j] : j \in 1..Len(s)}
EdgeSet(es) == {{es[j][1], es[j][2]} : j \in 1..Len(es)}

LayerFails(L, groupsAnc) ==
  \* one layer of a layout: gates (pairs), parks (qubits)
  LET G == EdgeSet(L.gates)  P == SeqSet(L.parks) IN
  W(G \subseteq Edges, "C17.exec.edges")
  \cup W(Len(L.gates) = Cardinality(G) /\ Disjoint(G), "C17.exec.disjoint")
  \cup W(P \cap QubitsOf(G) = {}, "C17.exec.park_and_gate")
  \cup (IF G \subseteq Edges /\ Disjoint(G) THEN W(ParkSet(G) \subseteq P, "C17.exec.parking") ELSE {})

\* circuit index the exposed map gives a qubit (-1: the map does not know it)
IdxIn(map, qb) == LET m == {n \in 1..Len(map) : map[n][1] = qb} IN IF m = {} THEN -1 ELSE map[CHOOSE n \in m : TRUE][2]
RowFails(r) ==
  CASE r.t = "layout_tables" ->
         W(SeqSet(r.qubits) = Qubits /\ Len(r.qubits) = 17, "C16.layout.qubits")
         \cup W(EdgeSet(r.edges) = Edges /\ Len(r.edges) = 24, "C16.layout.edges")
         \cup W(\A j \in 1..Len(r.groups) : r.groups[j][1] \in Qubits /\ Group[r.groups[j][1]] = r.groups[j][2], "C16.layout.frequency_groups")
         \cup W(\A j \in 1..Len(r.parity) : r.parity[j][1] \in DOMAIN Parity /\ SeqSet(r.parity[j][2]) = Parity[r.parity[j][1]], "C16.layout.parity_groups")
    [] r.t = "subset" ->
         (LET T == EdgeSet(r.edges) IN
          W(r.accepted = Accept(T), "C16.accept")
          \cup W(r.accepted_rev = Accept(T), "C16.accept.order")
          \cup (IF Disjoint(T) THEN W(SeqSet(r.parks) = ParkSet(T), "C16.park") ELSE {}))
    [] r.t = "generator" ->
         (LET want == EdgeSet(r.edges) IN
          UNION {LET steps == r.sequences[k] IN
                 W(\A j \in 1..Len(steps) : Accept(EdgeSet(steps[j])), "C16.steps")
                 \cup W(UNION {EdgeSet(steps[j]) : j \in 1..Len(steps)} = want
                        /\ \A a, b \in 1..Len(steps) : a # b => EdgeSet(steps[a]) \cap EdgeSet(steps[b]) = {}
                        /\ \A j \in 1..Len(steps) : Len(steps[j]) = Cardinality(EdgeSet(steps[j])), "C16.once")
                 : k \in 1..Len(r.sequences)}
          \cup W(r.count = Len(r.sequences), "C16.count")
          \* per step, the sequence reports exactly the qubits that require parking for that step's gates; the layout object it
          \* exports holds the same steps (gates and parks), one layer per step
          \cup UNION {LET steps == r.sequences[k]  pk == r.parks[k]  ex == r.exported[k] IN
                      W(Len(pk) = Len(steps) /\ \A j \in 1..Len(steps) : (Disjoint(EdgeSet(steps[j])) => SeqSet(pk[j]) = ParkSet(EdgeSet(steps[j]))), "C16.park.steps")
                      \cup W(Len(ex) = Len(steps) /\ \A j \in 1..Len(steps) : EdgeSet(ex[j].gates) = EdgeSet(steps[j])
                                                                              /\ (Disjoint(EdgeSet(steps[j])) => SeqSet(ex[j].parks) = ParkSet(EdgeSet(steps[j]))), "C16.once.exported")
                      : k \in 1..Len(r.parks)})
    [] r.t = "layout" ->
         \* a shipped or derived layout: layers + the ancilla-data pairs it must exercise exactly once
         (UNION {LayerFails(r.layers[k], {}) : k \in 1..Len(r.layers)}
          \cup (LET must == EdgeSet(r.must)
                    done(e) == Cardinality({k \in 1..Len(r.layers) : e \in EdgeSet(r.layers[k].gates)}) IN
                W(\A e \in must : done(e) = 1, "C17.once")
                \cup W(\A k \in 1..Len(r.layers) : EdgeSet(r.layers[k].gates) \subseteq must \/ ~r.strict, "C17.only_parity_edges")))
    [] r.t = "derived" ->
         (UNION {LayerFails(r.layers[k], {}) : k \in 1..Len(r.layers)}
          \cup W(Len(r.layers) = Len(r.base), "C17.derive.layers")
          \cup (IF Len(r.layers) = Len(r.base)
                THEN W(\A k \in 1..Len(r.layers) :
                          EdgeSet(r.layers[k].gates) = {e \in EdgeSet(r.base[k].gates) : e \subseteq SeqSet(r.involved)}, "C17.derive")
                ELSE {})
          \* the index map covers the involved qubits that are data or ancilla qubits of the layout (a qubit that only ever parks is
          \* not part of the code description) and is injective
          \cup W({r.index_map[j][1] : j \in 1..Len(r.index_map)} = SeqSet(r.involved) \cap SeqSet(r.code)
                 /\ Cardinality({r.index_map[j][2] : j \in 1..Len(r.index_map)}) = Len(r.index_map), "C17.bijective")
          \cup W(\A k \in 1..Len(r.layers) : r.gate_idx[k] = [j \in 1..Len(r.layers[k].gates) |->
                     <<IdxIn(r.index_map, r.layers[k].gates[j][1]), IdxIn(r.index_map, r.layers[k].gates[j][2])>>], "C17.indices"))
    [] r.t = "composite" ->
         \* exclusions: a gate is dropped iff its edge is excluded (in either orientation) or it touches an excluded qubit;
         \* with "only required parking" exactly the qubits that require parking for the kept gates are parked
         (W(Len(r.layers) = Len(r.base), "C17.derive.layers")
          \cup (IF Len(r.layers) = Len(r.base)
                THEN UNION {LET kept == {e \in EdgeSet(r.base[k].gates) : e \notin EdgeSet(r.exclude_edges) /\ e \cap SeqSet(r.exclude_qubits) = {}} IN
                            W(EdgeSet(r.layers[k].gates) = kept, "C17.derive.exclusions")
                            \cup (IF r.only_required /\ kept \subseteq Edges /\ Disjoint(kept)
                                  THEN W(SeqSet(r.layers[k].parks) = ParkSet(kept), "C17.exec.parking")
                                  ELSE W(SeqSet(r.layers[k].parks) = SeqSet(r.base[k].parks) \/ r.only_required, "C17.derive.parks"))
                            \cup W(SeqSet(r.layers[k].parks) \cap QubitsOf(EdgeSet(r.layers[k].gates)) = {}, "C17.exec.park_and_gate")
                            : k \in 1..Len(r.layers)}
                ELSE {}))
    [] OTHER -> {"C16.unknown_row"}

Covered ==
  LET got == {EdgeSet(Rows[j].edges) : j \in {k \in 1..Len(Rows) : Rows[k].t = "subset"}} IN
  UNION {kSubset(n, Edges) : n \in 1..CoverK} \subseteq got

Init == i = 1 /\ fails = <<>>
Step == /\ i <= Len(Rows)
        /\ LET f == RowFails(Rows[i]) IN fails' = IF f = {} THEN fails ELSE Append(fails, [row |-> i, clauses |-> f])
        /\ i' = i + 1
Done == /\ i = Len(Rows) + 1
        /\ JsonSerialize(IOEnv.VERIF_OUT, [n |-> Len(Rows), covered |-> Covered, fails |-> fails])
        /\ i' = i + 1 /\ UNCHANGED fails
Next == Step \/ Done
Spec == Init /\ [][Next]_<<i, fails>>
=============================================================================
